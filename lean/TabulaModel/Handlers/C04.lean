import TabulaModel.Util
import TabulaModel.Model.Xref
import TabulaModel.Model.XrefBytes
import TabulaModel.Model.XrefFile
import TabulaModel.Model.XrefNestCache
import TabulaModel.Model.XrefCached
import TabulaModel.Model.XrefResolve
import TabulaModel.Model.XrefTrailer
/-!
Ops of C04:
* `c04.run S=<start> X=<sections> O=<objects> P=<ops>` — the abstract model (Model/Xref.lean);
* `c04.xent <line>` / `c04.xsent <w0,w1,w2> <data>` — one classic / binary entry;
* `c04.lines <data>` — `bufio.Scanner` with `scanPDFLines`: `tl=<ErrTooLong> lens=<line lengths>`;
* `c04.find <file>` — `FindXRef`;
* `c04.sec <off> <inflate> <file>` — `ParseXRef(off)`: `ok prev=<-|N|bad> <entries>` or `err`;
* `c04.ind <lengths> <bytes>` — `ParseIndirectObject` (`lengths`: `_` or `num=value;…`, what the
  resolver answers for an indirect /Length; value `x` = not an integer);
* `c04.file <inflate> <file> <numbers>` — `reader.Open` + `GetObject` of every number on the
  bytes of the file: `xref=[…] res=[…]` or `open-err`.
* `c04.osm <inflate> <dict> <data> <indices>` — `core.NewObjectStream` on a stream with that
  dictionary text and data, then `GetObjectByIndex` for every index in order on the one object:
  `num:value` or `e` per call (the state machine of c437385: `osRunK`, the header error kept).
* `c04.nest <d> <top> <ops>` — the reader's caches on a chain file of `d` nested integers
  (Model/XrefNestCache.lean): ops `a<i>` / `b<i>` / `s<i>` / `t` = GetObject of `A i` / `B i` / `S i` / `T`,
  `c` = ClearCache; one of `1` (found), `0` (error), `-` (clear) per op.
* `c04.api <inflate> <file> <maxDepth> <full|probe> <ops>` — the public API on the bytes of a
  file, WITH the reader's caches (Model/XrefCached.lean) and one long-lived resolver of the
  resolver package (Model/XrefResolve.lean): `c` ClearCache, `g<n>` GetObject, `r<n>` Resolve,
  `D<n>` ResolveDeep(n 0 R), `E<n>` ResolveDeep(GetObject(n)); on the resolver `s<n>` Resolve,
  `p<n>` ResolveDeep, `q<n>` ResolveDeep(GetObject(n)), `u<n>` ResolveReference, `y<n>`
  ResolveReferenceDeep, `w<n>` GetObject, `z<n>` GetObjectResolved, `x<n>`
  GetObjectResolvedDeep, `t<n>` ResolveDict/ResolveArray(GetObject(n)), `R` Reset; a reference
  may carry a generation (`D5.1`). One answer per op: `-` (no answer), `e`, or the value
  (`full`: rendered; `probe`: depth and leaf along the first and along the last elements).
* `c04.cat <inflate> <file> <ops>` — `reader.Open` and the calls that start from the trailer
  (Model/XrefTrailer.lean), mixed with lookups on the cached reader: `g<n>` GetObject, `c`
  ClearCache, `C` GetCatalog, `I` GetInfo (`nil`: no /Info), `N` NumObjects (`#n`), `T`
  Trailer(); in front `ver=<a>.<b>` (Version()).
* `c04.ask <bytes>` — which object `ParseIndirectObject` asks its resolver for (`-`: none).
`inflate`: `_` or `<in>><out>;…` (zlib's answers, `!` = rejected).
-/
namespace Tabula.C04H
open Tabula Tabula.Xref

def nat? (s : String) : Option Nat := s.toNat?

def parseEntry (s : String) : Option (Nat × Entry) :=
  match s.splitOn "." with
  | [n, t, a, b] => do
    let n ← nat? n; let t ← nat? t; let a ← nat? a; let b ← nat? b
    match t with
    | 0 => some (n, .free a)
    | 1 => some (n, .at a)
    | 2 => some (n, .inStm a b)
    | _ => none
  | _ => none

def parseList {α} (sep : String) (f : String → Option α) (s : String) : Option (List α) :=
  if s == "" then some [] else (s.splitOn sep).mapM f

/-- `<off>/<prev|->/<entries>` -/
def parseSec (s : String) : Option (Nat × (Section × Option Nat)) :=
  match s.splitOn "/" with
  | [off, prev, es] => do
    let off ← nat? off
    let prev ← if prev == "-" then some none else (nat? prev).map some
    let es ← parseList "," parseEntry es
    some (off, (es, prev))
  | _ => none

def parseMember (s : String) : Option (Nat × Nat × Nat) :=
  match s.splitOn "." with
  | [n, k, i] => do some ((← nat? n), (← nat? k), (← nat? i))
  | _ => none

def parseVal (s : String) : Option Val :=
  match s.toList with
  | 'i' :: r => (nat? (String.ofList r)).map .int
  | 'd' :: r => (nat? (String.ofList r)).map .dict
  | 's' :: r => (parseList "+" parseMember (String.ofList r)).map .objstm
  | ['t'] => some .stream
  | ['o'] => some .other
  | _ => none

def parseObj (s : String) : Option (Nat × (Nat × Val)) :=
  match s.splitOn ":" with
  | [off, num, v] => do some ((← nat? off), ((← nat? num), (← parseVal v)))
  | _ => none

def parseOp (s : String) : Option Op :=
  match s.toList with
  | ['c'] => some .clear
  | 'g' :: r => (nat? (String.ofList r)).map .get
  | _ => none

def showVal : Option Val → String
  | none => "e"
  | some (.int i) => s!"i{i}"
  | some (.dict i) => s!"d{i}"
  | some (.objstm _) => "S"
  | some .stream => "S"
  | some .other => "o"

def showEntry (n : Nat) : Entry → String
  | .free a => s!"{n}:0:{a}"
  | .at a => s!"{n}:1:{a}"
  | .inStm a b => s!"{n}:2:{a}:{b}"

def insertSorted (x : Nat) : List Nat → List Nat
  | [] => [x]
  | y :: ys => if x < y then x :: y :: ys else if x = y then y :: ys else y :: insertSorted x ys

def dumpXref (x : Section) : String :=
  let keys := (x.map Prod.fst).foldl (fun acc k => insertSorted k acc) []
  ",".intercalate (keys.filterMap fun k => (getLast x k).map (showEntry k))

/-! ### byte-level ops -/
open Tabula.XrefFile (RawEntry RawSection getLastI)

def unhexN (s : String) : Option (List Nat) := (unhex s).map fun b => b.map (·.toNat)

def hexN (s : List Nat) : String := hex (s.map UInt8.ofNat)

def parseInflate (s : String) : Option (List (List Nat × Option (List Nat))) :=
  if s == "_" then some [] else
  (s.splitOn ";").mapM fun e => match e.splitOn ">" with
    | [i, o] => do
      let i ← unhexN i
      let o ← if o == "!" then some none else (unhexN o).map some
      pure (i, o)
    | _ => none

def mkExt (infl : List (List Nat × Option (List Nat))) : Reader.Ext :=
  { filt := { inflate := fun x => match infl.find? (fun e => e.1 == x) with | some e => e.2 | none => none,
              ccitt := fun _ _ => none },
    nfc := fun p => p }

def insertSortedI (x : Int) : List Int → List Int
  | [] => [x]
  | y :: ys => if x < y then x :: y :: ys else if x = y then y :: ys else y :: insertSortedI x ys

def showRaw (n : Int) (e : RawEntry) : String :=
  s!"{n}:{XrefBytes.kindCode e.kind}:{e.f1}:{e.f2}"

def dumpRaw (x : RawSection) : String :=
  let keys := (x.map Prod.fst).foldl (fun acc k => insertSortedI k acc) []
  ",".intercalate (keys.filterMap fun k => (getLastI x k).map (showRaw k))

def strLt : List Nat → List Nat → Bool
  | [], [] => false
  | [], _ :: _ => true
  | _ :: _, [] => false
  | a :: as, b :: bs => if a < b then true else if b < a then false else strLt as bs

def insertKey (k : List Nat × String) : List (List Nat × String) → List (List Nat × String)
  | [] => [k]
  | y :: ys => if strLt k.1 y.1 then k :: y :: ys else y :: insertKey k ys

/-- canonical rendering of a parsed object (the harness renders Go's value the same way) -/
partial def showObj : Pdf.Obj → String
  | .null => "null"
  | .bool b => if b then "true" else "false"
  | .int i => s!"i{i}"
  | .real _ _ _ => "real"
  | .str v => "s" ++ hexN v
  | .name v => "n" ++ hexN v
  | .arr xs => "[" ++ ",".intercalate (xs.map showObj) ++ "]"
  | .dict kv =>
    let items := kv.foldl (fun acc p => insertKey (p.1, hexN p.1 ++ ":" ++ showObj p.2) acc) []
    "{" ++ ",".intercalate (items.map Prod.snd) ++ "}"
  | .ref n g => s!"{n}.{g}R"

def showPVal : Reader.PVal → String
  | .obj o => showObj o
  | .stream _ data => s!"S{data.length}"

def parseLens (s : String) : Option (List (Int × Option Int)) :=
  if s == "_" then some [] else
  (s.splitOn ";").mapM fun e => match e.splitOn "=" with
    | [a, b] => do
      let a ← a.toInt?
      let b ← if b == "x" then some none else b.toInt?.map some
      pure (a, b)
    | _ => none

def parseInts (s : String) : Option (List Int) :=
  if s == "-" then some [] else (s.splitOn ",").mapM String.toInt?

def showPrev : XrefFile.Prev → String
  | .absent => "-"
  | .at p => toString p
  | .bad => "bad"

/-- canonical rendering of an API value (the harness renders Go's value the same way) -/
partial def showD : XrefR.DObj → String
  | .null => "null"
  | .bool b => if b then "true" else "false"
  | .int i => s!"i{i}"
  | .real _ _ _ => "real"
  | .str v => "s" ++ hexN v
  | .name v => "n" ++ hexN v
  | .arr xs => "[" ++ ",".intercalate (xs.map showD) ++ "]"
  | .dict kv => showKV kv
  | .ref n g => s!"{n}.{g}R"
  | .stream kv data => s!"S{data.length}" ++ showKV kv
where
  showKV (kv : List (List Nat × XrefR.DObj)) : String :=
    let items := kv.foldl (fun acc p => insertKey (p.1, hexN p.1 ++ ":" ++ showD p.2) acc) []
    "{" ++ ",".intercalate (items.map Prod.snd) ++ "}"

/-- a value too large to render (a shared graph has 2^levels paths): the number of arrays
along the first / last elements and what stands at the end -/
partial def probeD (v : XrefR.DObj) : String :=
  let leaf : XrefR.DObj → String
    | .int i => s!"i{i}"
    | .arr [] => "[]"
    | .ref n g => s!"{n}.{g}R"
    | _ => "o"
  let rec walk (last : Bool) (v : XrefR.DObj) (n : Nat) : String :=
    match v with
    | .arr (x :: xs) => walk last (if last then (x :: xs).getLastD x else x) (n + 1)
    | o => s!"{n}:{leaf o}"
  s!"P{walk false v 0}/{walk true v 0}"

def parseApiOp (s : String) : Option XrefR.Api.Op :=
  let ref (r : List Char) : Option (Int × Int) :=
    match (String.ofList r).splitOn "." with
    | [n] => n.toInt?.map fun n => (n, 0)
    | [n, g] => do some ((← n.toInt?), (← g.toInt?))
    | _ => none
  match s.toList with
  | ['c'] => some .clear
  | ['R'] => some .pReset
  | 'g' :: r => (ref r).map fun p => .get p.1
  | 'r' :: r => (ref r).map fun p => .resolve p.1 p.2
  | 'D' :: r => (ref r).map fun p => .deep p.1 p.2
  | 'E' :: r => (ref r).map fun p => .deepObj p.1
  | 's' :: r => (ref r).map fun p => .pResolve p.1 p.2
  | 'p' :: r => (ref r).map fun p => .pDeep p.1 p.2
  | 'q' :: r => (ref r).map fun p => .pDeepObj p.1
  | 'u' :: r => (ref r).map fun p => .pRef p.1 p.2
  | 'y' :: r => (ref r).map fun p => .pRefDeep p.1 p.2
  | 'w' :: r => (ref r).map fun p => .pGet p.1
  | 'z' :: r => (ref r).map fun p => .pGetResolved p.1
  | 'x' :: r => (ref r).map fun p => .pGetDeep p.1
  | 't' :: r => (ref r).map fun p => .pCont p.1
  | _ => none

def handleBytes (op : String) (args : List String) : Option String :=
  match op, args with
  | "c04.lines", [h] =>
    (unhexN h).map fun bs =>
      let p := XrefFile.linesOf bs
      s!"tl={if p.2 then 1 else 0} lens=[{",".intercalate (p.1.map fun l => toString l.length)}]"
  | "c04.find", [h] =>
    (unhexN h).map fun bs =>
      match XrefFile.findXRef bs with
      | .ok v => s!"ok {v}"
      | .error _ => "err"
  | "c04.sec", [off, infl, h] =>
    match off.toInt?, parseInflate infl, unhexN h with
    | some off, some infl, some bs =>
      some (match XrefFile.parseXRef (mkExt infl) bs off with
        | .ok (sec, tr) => s!"ok prev={showPrev (XrefFile.prevOf tr)} [{dumpRaw sec}]"
        | .error _ => "err")
    | _, _, _ => none
  | "c04.ind", [lens, h] =>
    match parseLens lens, unhexN h with
    | some lens, some bs =>
      let lenOf : Int → Option Int := fun m => match lens.find? (fun e => e.1 == m) with | some e => e.2 | none => none
      some (match XrefFile.parseIndirect bs lenOf with
        | some (num, gen, .obj o) => s!"ok {num} {gen} {showObj o}"
        | some (num, gen, .stream kv data) => s!"ok {num} {gen} S{showObj (.dict kv)}{hexN data}"
        | none => "err")
    | _, _ => none
  | "c04.osm", [infl, d, data, idxs] =>
    match parseInflate infl, unhexN d, unhexN data, parseInts idxs with
    | some infl, some d, some data, some idxs =>
      some (match Pdf.coreParse d with
        | .ok (.dict kv, _) =>
          let dec := Reader.mkObjStm (mkExt infl) kv data
          let res := XrefFile.osRunK true dec {} idxs
          ",".intercalate (res.map fun r => match r with
            | some (num, o) => s!"{num}:{showObj o}"
            | none => "e")
        | _ => "bad-dict")
    | _, _, _, _ => none
  | "c04.file", [infl, h, nums] =>
    match parseInflate infl, unhexN h, parseInts nums with
    | some infl, some bs, some nums =>
      let ext := mkExt infl
      some (match XrefFile.openFile ext bs with
        | .error _ => "open-err"
        | .ok x =>
          let res := nums.map fun n =>
            match XrefFile.getObjectB ext bs x (XrefFile.maxNestedLoads + 1) [] n with
            | some v => showPVal v
            | none => "e"
          s!"xref=[{dumpRaw x}] res=[{",".intercalate res}]")
    | _, _, _ => none
  | "c04.ask", [h] =>
    (unhexN h).map fun bs =>
      match (XrefC.parseIndirectK bs).asked with
      | some n => toString n
      | none => "-"
  | "c04.api", [infl, h, md, mode, ops] =>
    match parseInflate infl, unhexN h, md.toNat?, (ops.splitOn ",").mapM parseApiOp with
    | some infl, some bs, some md, some ops =>
      some (match XrefR.Api.session (mkExt infl) true bs md id ops with
        | .error _ => "open-err"
        | .ok res =>
          ",".intercalate (res.map fun r => match r with
            | none => "-"
            | some none => "e"
            | some (some v) => if mode == "probe" then probeD v else showD v))
    | _, _, _, _ => none
  | "c04.cat", [infl, h, ops] =>
    let parseT (s : String) : Option XrefT.TOp :=
      match s.toList with
      | ['c'] => some .clear
      | ['C'] => some .catalog
      | ['I'] => some .info
      | ['N'] => some .numObjects
      | ['T'] => some .trailer
      | 'g' :: r => (String.ofList r).toInt?.map .get
      | _ => none
    match parseInflate infl, unhexN h, (ops.splitOn ",").mapM parseT with
    | some infl, some bs, some ops =>
      some (match XrefT.tsession (mkExt infl) true bs ops with
        | .error _ => "open-err"
        | .ok res =>
          let ver := match XrefT.versionOf bs with
            | some (a, b) => s!"ver={a}.{b}"
            | none => "ver=?"
          ver ++ " " ++ ",".intercalate (res.map fun r => match r with
            | .nothing => "-"
            | .noInfo => "nil"
            | .num n => s!"#{n}"
            | .val none => "e"
            | .val (some v) => showD v))
    | _, _, _ => none
  | "c04.nest", [d, top, ops] =>
    let parseOp (s : String) : Option XrefNest.Op :=
      match s.toList with
      | ['c'] => some .clear
      | ['t'] => some .t
      | 'a' :: r => (String.ofList r).toNat?.map .a
      | 'b' :: r => (String.ofList r).toNat?.map .b
      | 's' :: r => (String.ofList r).toNat?.map .s
      | _ => none
    match d.toNat?, (ops.splitOn ",").mapM parseOp with
    | some d, some ops =>
      let res := XrefNest.run d (top == "1") {} ops
      some (",".intercalate (res.map fun r => match r with
        | some true => "1"
        | some false => "0"
        | none => "-"))
    | _, _ => none
  | _, _ => none

def handle (op : String) (args : List String) : String :=
  match handleBytes op args with
  | some r => r
  | none =>
  match op, args with
  | "c04.run", [start, secs, objs, ops] =>
    match nat? ((start.drop 2).toString), parseList "|" parseSec (secs.drop 2).toString,
          parseList ";" parseObj (objs.drop 2).toString, parseList "," parseOp (ops.drop 2).toString with
    | some st, some secs, some objs, some ops =>
      let tables := parseAllXRefs secs st
      let x := mergeTables tables
      let res := run ⟨x, objs⟩ {} ops
      s!"xref=[{dumpXref x}] res=[{",".intercalate (res.map showVal)}]"
    | _, _, _, _ => "bad-op"
  | "c04.xent", [h] =>
    match unhex h with
    | some bs =>
      (match XrefBytes.parseEntryU (bs.map (·.toNat)) with
       | some (off, gen, inUse) => s!"ok {off} {gen} {if inUse then "n" else "f"}"
       | none => "err")
    | none => "bad-op"
  | "c04.xsent", [ws, h] =>
    match (ws.splitOn ",").mapM String.toNat?, unhex h with
    | some [w0, w1, w2], some bs =>
      (match XrefFile.streamEntry (bs.map (·.toNat)) w0 w1 w2 with
       | some e => s!"ok {XrefBytes.kindCode e.kind} {e.f1} {e.f2} {w0 + w1 + w2}"
       | none => "err")
    | _, _ => "bad-op"
  | _, _ => "bad-op"

end Tabula.C04H
