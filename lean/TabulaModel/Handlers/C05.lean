import TabulaModel.Util
import TabulaModel.Model.Filters
/-!
Line protocol of C05 (bytes are lower-case hex, `-` = empty; replies `ok <hex>` or `err`):

* `c05.hex <data>`                  — `hexDecode`
* `c05.a85 <data>`                  — `a85Decode`
* `c05.pred <P> <data>`             — `flatePost (some P)` (what FlateDecode does after inflating)
* `c05.chain <filter> <parms> <data> <table>` — `streamDecode`
* `c05.enc.hex <u|l> <data>`, `c05.enc.a85 <data>`, `c05.enc.png <colors> <columns> <tags> <data>`,
  `c05.enc.tiff <colors> <columns> <data>` — the specification encoders (compared with the
  harness's independent encoders)

`P` = `pred/colors/columns/bpc`, each a decimal integer, `<int>r` (a Real with that integral
value), `x` (a non-numeric object) or `~` (absent).
`filter` = `~` (absent) | `o` (not a name/array) | `n:<hexname>` | `a:<e>,<e>,…` with `e` = `<hexname>` or `o`.
`parms`  = `~` | `z` (null) | `o` | `d=<P>` | `a:<e>,…` with `e` = `z` | `o` | `d=<P>`.
`table`  = `_` (empty) or `<in>><out>;…` — results of zlib inflate for the inputs the
chain feeds to it; `<out>` = hex or `!` (inflate failed).
-/
namespace Tabula.C05H
open Tabula Tabula.Filters

def toStr (b : Bytes) : Str := b.map (·.toNat)
def ofStr (s : Str) : Bytes := s.map UInt8.ofNat
def hexS (s : Str) : String := hex (ofStr s)
def unhexS (s : String) : Option Str := (unhex s).map toStr

def reply : Option Str → String
  | some s => "ok " ++ hexS s
  | none => "err"

/-- a parameter value: `~` absent, `x` present but not a number (`getIntParam` falls back to
the default, as for an absent key), `12` an Int, `12r` a Real with integral value (`int(v)`) -/
def optInt (s : String) : Option (Option Int) :=
  if s == "~" || s == "x" then some none
  else if s.endsWith "r" then (s.dropEnd 1).toString.toInt?.map some
  else s.toInt?.map some

def parseParams (s : String) : Option Params :=
  match s.splitOn "/" with
  | [a, b, c, d] => do
    let pr ← optInt a; let colors ← optInt b; let columns ← optInt c; let bpc ← optInt d
    pure { predictor := pr, colors := colors, columns := columns, bpc := bpc }
  | _ => none

def parsePObj (s : String) : Option PObj :=
  if s == "~" then some .absent
  else if s == "z" then some .null
  else if s == "o" then some .other
  else if s.startsWith "d=" then (parseParams (s.drop 2).toString).map .dict
  else none

def parseDParms (s : String) : Option DParms :=
  if s.startsWith "a:" then
    let body := (s.drop 2).toString
    if body == "" then some (.array [])
    else ((body.splitOn ",").mapM parsePObj).map .array
  else (parsePObj s).map .one

def parseFObj (s : String) : Option FObj :=
  if s == "o" then some .other else (unhexS s).map .name

def parseFilter (s : String) : Option Filter :=
  if s == "~" then some .absent
  else if s == "o" then some (.one .other)
  else if s.startsWith "n:" then (unhexS (s.drop 2).toString).map (fun n => .one (.name n))
  else if s.startsWith "a:" then
    let body := (s.drop 2).toString
    if body == "" then some (.array [])
    else ((body.splitOn ",").mapM parseFObj).map .array
  else none

def parseEntry (s : String) : Option (Str × Option Str) :=
  match s.splitOn ">" with
  | [i, o] => do
    let i ← unhexS i
    let o ← if o == "!" then some none else (unhexS o).map some
    pure (i, o)
  | _ => none

def parseTable (s : String) : Option (List (Str × Option Str)) :=
  if s == "_" then some [] else (s.splitOn ";").mapM parseEntry

def lookupTable (t : List (Str × Option Str)) (x : Str) : Option Str :=
  match t.find? (fun e => e.1 == x) with
  | some e => e.2
  | none => none

def handle (op : String) (args : List String) : String :=
  match op, args with
  | "c05.hex", [d] => match unhexS d with
    | some d => reply (hexDecode d) | none => "bad-op"
  | "c05.a85", [d] => match unhexS d with
    | some d => reply (a85Decode d) | none => "bad-op"
  | "c05.pred", [p, d] => match parseParams p, unhexS d with
    | some p, some d => reply (flatePost (some p) d) | _, _ => "bad-op"
  | "c05.chain", [f, p, d, t] =>
    match parseFilter f, parseDParms p, unhexS d, parseTable t with
    | some f, some p, some d, some t =>
      reply (streamDecode { inflate := lookupTable t, ccitt := fun _ => none } f p d)
    | _, _, _, _ => "bad-op"
  | "c05.enc.hex", [u, d] => match unhexS d with
    | some d => reply (some (hexEncode (u == "u") d)) | none => "bad-op"
  | "c05.enc.a85", [d] => match unhexS d with
    | some d => reply (some (a85Encode d)) | none => "bad-op"
  | "c05.enc.png", [colors, columns, tags, d] =>
    match colors.toNat?, columns.toNat?, unhexS tags, unhexS d with
    | some colors, some columns, some tags, some d => reply (some (pngPredict colors columns tags d))
    | _, _, _, _ => "bad-op"
  | "c05.enc.tiff", [colors, columns, d] =>
    match colors.toNat?, columns.toNat?, unhexS d with
    | some colors, some columns, some d => reply (some (tiffPredict colors columns d))
    | _, _, _ => "bad-op"
  | _, _ => "bad-op"

end Tabula.C05H
