import TabulaModel.Util
namespace Tabula.C05H

def handle (_op : String) (_args : List String) : String := "bad-op"

end Tabula.C05H
