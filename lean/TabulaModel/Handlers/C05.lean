import TabulaModel.Util
import TabulaModel.Model.Filters
import TabulaModel.Model.StreamDict
import TabulaModel.Model.FilterSpec
import TabulaModel.Model.StreamConform
import TabulaModel.Model.StreamConformLax
import TabulaModel.Model.StreamLit
import TabulaModel.Model.StreamHeap
/-!
Line protocol of C05 (bytes are lower-case hex, `-` = empty; replies `ok <hex>` or `err`):

* `c05.hex <data>`                  — `hexDecode`
* `c05.a85 <data>`                  — `a85Decode`
* `c05.pred <P> <data>`             — `flatePost (some P)` (what FlateDecode does after inflating)
* `c05.chain <filter> <parms> <data> <table>` — `streamDecode`
* `c05.enc.hex <u|l> <data>`, `c05.enc.a85 <data>`, `c05.enc.png <colors> <columns> <tags> <data>`,
  `c05.enc.tiff <colors> <columns> <data>` — the specification encoders (compared with the
  harness's independent encoders)

`P` = `pred/colors/columns/bpc`, each a decimal integer, `<int>r` (a Real with that integral
value), `x` (a non-numeric object) or `~` (absent).
`filter` = `~` (absent) | `o` (not a name/array) | `n:<hexname>` | `a:<e>,<e>,…` with `e` = `<hexname>` or `o`.
`parms`  = `~` | `z` (null) | `o` | `d=<P>` | `a:<e>,…` with `e` = `z` | `o` | `d=<P>`.
`table`  = `_` (empty) or `<in>><out>;…` — results of zlib inflate for the inputs the
chain feeds to it; `<out>` = hex or `!` (inflate failed).

Dictionary-level ops (`Model/StreamDict.lean`):

* `c05.sd <dict> <data> <table>`    — `streamDecodeD` on the stream dictionary as tabula holds it
* `c05.spec.hex <data>`, `c05.spec.a85 <data>` — the declarative readings `hexSpec` / `a85Spec`
  of §7.4.2 / §7.4.3 (`Model/FilterSpec.lean`), compared with the implementation like `c05.hex`
* `c05.sdc <dict> <data> <table> <ctable>` — like `c05.sd`, with results of x/image/ccitt:
  `ctable` = `_` or `<4|3><0|1>:<columns>:<rows>:<in>><out>;…` (Group 4 / Group 3, Invert off / on,
  width, height with -1 = detect) for the argument combinations the harness tried; the model
  looks up the combination `ccittFaxDecode` derives from the dictionary
* `c05.sdcz <dict> <data> <table> <ctable>` — like `c05.sdc` for images near `maxCCITTOutput` (64 MiB):
  in `ctable` an `<out>` may also be run-length coded, `R<hexbyte>x<count>.<hexbyte>x<count>.…` (`R` alone =
  empty), and the reply is a digest, `okz <length> <fnv>` (`fnv` = fold of `h := (h*16777619 + b + 1) mod 2^32`
  from 2166136261) or `err`. For images far beyond the bound the harness supplies the first
  `maxCCITTOutput + 1` bytes of the library's answer only (theorem `ccitt_reads_prefix_only`: the model
  depends on nothing else)
* `c05.conf <stages> <dict>`        — `conformingB`: is the dictionary a conforming description of the
  pipeline (`true` / `false`); `stages` = `_` or a comma-separated list of `h<0|1>` (ASCIIHex, 1 =
  abbreviated name), `a<0|1>` (ASCII85), `f<0|1>` (Flate), `t<0|1>:<colors>:<columns>` (Flate + TIFF),
  `p<0|1>:<pred>:<colors>:<columns>:<tagshex>` (Flate + PNG)
* `c05.writes <stages> <table> <y> <m1> … <x>` — `chainWritesL`: are the intermediates of an encoded
  pipeline (outermost encoding first, original last) conforming encodings of one another
  (`true` / `false`); `table` as for `c05.chain`
* `c05.writeslax <stages> <table> <y> <m1> … <x>` — `chainWritesLaxL`: the same with the lenient ASCII85
  writing (`!!!!!` allowed for an all-zero group, `Model/StreamConformLax.lean`)
* `c05.sess <calls> <table> <dict1> <data1> <dict2> <data2> …` — `runSession`: `calls` is a
  comma-separated list of stream indices (a history of `Decode()` calls); the reply joins the
  results with `|`

Loop-level and buffer-level models (`Model/FiltersLit.lean`, `Model/PredictFlat.lean`,
`Model/StreamLit.lean`; proved equal to the models above in `Props/C05Lit.lean`):

* `c05.lit.hex <data>`, `c05.lit.a85 <data>` — `hexDecodeLit`, `a85DecodeLit` (the Go loops with indices
  and machine arithmetic)
* `c05.flat <P> <data>`             — `flatePostFlat (some P)` (the predictors on flat buffers)
* `c05.lit.sd <dict> <data> <table>` — `streamDecodeDLit` (`Decode()` over the loop-level functions)

Histories with shared buffers (`Model/StreamHeap.lean`):

* `c05.heap <ops> <table> <dict1> <data1> …` — `traceHeap` / `runHeap`: `ops` is a comma-separated list of
  `d<i>` (`Decode()` on stream i), `D<i>` (`Decoded()`), `w<r>:<k>:<v>` (the caller writes byte v at
  position k of the r-th result). The reply joins, with `|`, one entry per operation — `ok <hex>`, `err`,
  `w` — then `#`, the streams' Data at the end (comma-separated hex), `#`, and the results as they read at
  the end (hex or `!` for a failed call). Whether a result IS the stream's Data is not part of the
  reply (the property does not say; the harness only counts how often the implementation agrees with
  `passThrough`), and the generated histories write only through results of streams with a decoding filter

`dict` is an object in the wire form `obj` = `N` (Go nil) | `z` (Null) | `T` | `F` | `i<int>` | `r<m>/<e>` (the
Real m/2^e) | `s<hex>` (String) | `n<hex>` (Name) | `o` (stream / indirect reference) |
`a[<obj>,…]` | `d[<hexkey>=<obj>,…]`.
-/
namespace Tabula.C05H
open Tabula Tabula.Filters

def toStr (b : Bytes) : Str := b.map (·.toNat)
def ofStr (s : Str) : Bytes := s.map UInt8.ofNat
def hexS (s : Str) : String := hex (ofStr s)
def unhexS (s : String) : Option Str := (unhex s).map toStr

def reply : Option Str → String
  | some s => "ok " ++ hexS s
  | none => "err"

/-- a parameter value: `~` absent, `x` present but not a number (`getIntParam` falls back to
the default, as for an absent key), `12` an Int, `12r` a Real with integral value (`int(v)`) -/
def optInt (s : String) : Option (Option Int) :=
  if s == "~" || s == "x" then some none
  else if s.endsWith "r" then (s.dropEnd 1).toString.toInt?.map some
  else s.toInt?.map some

def parseParams (s : String) : Option Params :=
  match s.splitOn "/" with
  | [a, b, c, d] => do
    let pr ← optInt a; let colors ← optInt b; let columns ← optInt c; let bpc ← optInt d
    pure { predictor := pr, colors := colors, columns := columns, bpc := bpc }
  | _ => none

def parsePObj (s : String) : Option PObj :=
  if s == "~" then some .absent
  else if s == "z" then some .null
  else if s == "o" then some .other
  else if s.startsWith "d=" then (parseParams (s.drop 2).toString).map .dict
  else none

def parseDParms (s : String) : Option DParms :=
  if s.startsWith "a:" then
    let body := (s.drop 2).toString
    if body == "" then some (.array [])
    else ((body.splitOn ",").mapM parsePObj).map .array
  else (parsePObj s).map .one

def parseFObj (s : String) : Option FObj :=
  if s == "o" then some .other else (unhexS s).map .name

def parseFilter (s : String) : Option Filter :=
  if s == "~" then some .absent
  else if s == "o" then some (.one .other)
  else if s.startsWith "n:" then (unhexS (s.drop 2).toString).map (fun n => .one (.name n))
  else if s.startsWith "a:" then
    let body := (s.drop 2).toString
    if body == "" then some (.array [])
    else ((body.splitOn ",").mapM parseFObj).map .array
  else none

def parseEntry (s : String) : Option (Str × Option Str) :=
  match s.splitOn ">" with
  | [i, o] => do
    let i ← unhexS i
    let o ← if o == "!" then some none else (unhexS o).map some
    pure (i, o)
  | _ => none

def parseTable (s : String) : Option (List (Str × Option Str)) :=
  if s == "_" then some [] else (s.splitOn ";").mapM parseEntry

def lookupTable (t : List (Str × Option Str)) (x : Str) : Option Str :=
  match t.find? (fun e => e.1 == x) with
  | some e => e.2
  | none => none

def isHexC (c : Char) : Bool := c.isDigit || ('a' ≤ c && c ≤ 'f') || c == '-'

mutual
  /-- one object of the wire form; the fuel is the length of the input -/
  def parseObjF : Nat → List Char → Option (Obj × List Char)
    | 0, _ => none
    | f + 1, cs =>
      match cs with
      | 'N' :: r => some (.nil, r)
      | 'z' :: r => some (.null, r)
      | 'T' :: r => some (.bool true, r)
      | 'F' :: r => some (.bool false, r)
      | 'o' :: r => some (.other, r)
      | 'i' :: r =>
        let (num, rest) := r.span (fun c => c.isDigit || c == '-')
        (String.ofList num).toInt?.map fun n => (.int n, rest)
      | 'r' :: r =>
        let (num, rest) := r.span (fun c => c.isDigit || c == '-')
        match rest with
        | '/' :: rest =>
          let (ex, rest) := rest.span Char.isDigit
          match (String.ofList num).toInt?, (String.ofList ex).toNat? with
          | some m, some e => some (.real m e, rest)
          | _, _ => none
        | _ => none
      | 's' :: r =>
        let (h, rest) := r.span isHexC
        (unhexS (String.ofList h)).map fun b => (.str b, rest)
      | 'n' :: r =>
        let (h, rest) := r.span isHexC
        (unhexS (String.ofList h)).map fun b => (.name b, rest)
      | 'a' :: '[' :: ']' :: r => some (.array [], r)
      | 'a' :: '[' :: r => (parseElemsF f r []).map fun (xs, rest) => (.array xs, rest)
      | 'd' :: '[' :: ']' :: r => some (.dict [], r)
      | 'd' :: '[' :: r => (parseKVsF f r []).map fun (kvs, rest) => (.dict kvs, rest)
      | _ => none
  def parseElemsF : Nat → List Char → List Obj → Option (List Obj × List Char)
    | 0, _, _ => none
    | f + 1, cs, acc =>
      match parseObjF f cs with
      | some (o, ',' :: rest) => parseElemsF f rest (o :: acc)
      | some (o, ']' :: rest) => some ((o :: acc).reverse, rest)
      | _ => none
  def parseKVsF : Nat → List Char → List (Str × Obj) → Option (List (Str × Obj) × List Char)
    | 0, _, _ => none
    | f + 1, cs, acc =>
      let (h, rest) := cs.span isHexC
      match unhexS (String.ofList h), rest with
      | some k, '=' :: rest =>
        match parseObjF f rest with
        | some (o, ',' :: rest) => parseKVsF f rest ((k, o) :: acc)
        | some (o, ']' :: rest) => some (((k, o) :: acc).reverse, rest)
        | _ => none
      | _, _ => none
end

def parseObj (s : String) : Option Obj :=
  let cs := s.toList
  match parseObjF (cs.length + 1) cs with
  | some (o, []) => some o
  | _ => none

def parseDict (s : String) : Option Dict :=
  match parseObj s with
  | some (.dict kvs) => some kvs
  | _ => none

def parseStreams : List String → Option Store
  | [] => some []
  | d :: x :: rest => do
    let d ← parseDict d
    let x ← unhexS x
    let tl ← parseStreams rest
    pure ({ dict := d, data := x } :: tl)
  | _ => none

/-- `n` copies of `b` in front of `acc` (a loop) -/
def pushN : Nat → Nat → Str → Str
  | 0, _, acc => acc
  | n + 1, b, acc => pushN n b (b :: acc)

def parseRun (s : String) : Option (Nat × Nat) :=
  match s.splitOn "x" with
  | [b, n] => do
    let b ← unhexS b
    let n ← n.toNat?
    match b with
    | [b] => pure (b, n)
    | _ => none
  | _ => none

/-- `<hex>` or the run-length form `R<hexbyte>x<count>.…` -/
def unhexOrRuns (s : String) : Option Str :=
  if s.startsWith "R" then
    let body := (s.drop 1).toString
    if body == "" then some []
    else ((body.splitOn ".").mapM parseRun).map fun runs => runs.foldr (fun r acc => pushN r.2 r.1 acc) []
  else unhexS s

def fnvStep (h b : Nat) : Nat := (h * 16777619 + b + 1) % 4294967296

def replyZ : Option Str → String
  | some s => "okz " ++ toString s.length ++ " " ++ toString (s.foldl fnvStep 2166136261)
  | none => "err"

def parseCEntry (s : String) : Option ((CcittArgs × Str) × Option Str) :=
  match s.splitOn ">" with
  | [key, o] =>
    match key.splitOn ":" with
    | [gi, columns, rows, i] => do
      let g ← if gi.startsWith "4" then some true else if gi.startsWith "3" then some false else none
      let inv ← if gi.endsWith "1" then some true else if gi.endsWith "0" then some false else none
      let columns ← columns.toInt?
      let rows ← rows.toInt?
      let i ← unhexS i
      let o ← if o == "!" then some none else (unhexOrRuns o).map some
      pure (({ group4 := g, invert := inv, columns := columns, rows := rows }, i), o)
    | _ => none
  | _ => none

def parseCTable (s : String) : Option (List ((CcittArgs × Str) × Option Str)) :=
  if s == "_" then some [] else (s.splitOn ";").mapM parseCEntry

def lookupCTable (t : List ((CcittArgs × Str) × Option Str)) (a : CcittArgs) (x : Str) : Option Str :=
  match t.find? (fun e => e.1.1 == a && e.1.2 == x) with
  | some e => e.2
  | none => none

def parseStage (s : String) : Option WStage :=
  let short (f : String) : Option Bool := if f == "1" then some true else if f == "0" then some false else none
  match (s.drop 1).toString.splitOn ":" with
  | [a] =>
    if s.startsWith "h" then (short a).map .hex
    else if s.startsWith "a" then (short a).map .a85
    else if s.startsWith "f" then (short a).map .flate
    else none
  | [a, colors, columns] =>
    if s.startsWith "t" then do
      let a ← short a; let colors ← colors.toNat?; let columns ← columns.toNat?
      pure (.tiff a colors columns)
    else none
  | [a, pred, colors, columns, tags] =>
    if s.startsWith "p" then do
      let a ← short a; let pred ← pred.toNat?; let colors ← colors.toNat?; let columns ← columns.toNat?
      let tags ← unhexS tags
      pure (.png a pred colors columns tags)
    else none
  | _ => none

def parseStages (s : String) : Option (List WStage) :=
  if s == "_" then some [] else (s.splitOn ",").mapM parseStage

def parseHOp (s : String) : Option HOp :=
  if s.startsWith "d" then (s.drop 1).toString.toNat?.map .decode
  else if s.startsWith "D" then (s.drop 1).toString.toNat?.map .decoded
  else if s.startsWith "w" then
    match (s.drop 1).toString.splitOn ":" with
    | [r, k, v] => do
      let r ← r.toNat?; let k ← k.toNat?; let v ← v.toNat?
      pure (.write r k v)
    | _ => none
  else none

/-- one entry of the trace of `c05.heap` -/
def heapEntry (op : HOp) (r : Option (Str × Bool)) : String :=
  match op with
  | .write _ _ _ => "w"
  | _ =>
    match r with
    | none => "err"
    | some (b, _) => "ok " ++ hexS b

def heapReply (ext : Ext) (st : Store) (ops : List HOp) : String :=
  let h0 := Heap.init st
  let tr := traceHeap ext h0 ops
  let h := runHeap ext h0 ops
  let entries := (ops.zip tr).map fun (op, r) => heapEntry op r
  let streams := h.streams.map fun s => hexS s.data
  let results := h.results.map fun r =>
    match r with
    | none => "!"
    | some ref => match h.deref ref with
      | some b => hexS b
      | none => "?"
  "|".intercalate entries ++ "#" ++ ",".intercalate streams ++ "#" ++ ",".intercalate results

def handle (op : String) (args : List String) : String :=
  match op, args with
  | "c05.lit.hex", [d] => match unhexS d with
    | some d => reply (hexDecodeLit d) | none => "bad-op"
  | "c05.lit.a85", [d] => match unhexS d with
    | some d => reply (a85DecodeLit d) | none => "bad-op"
  | "c05.flat", [p, d] => match parseParams p, unhexS d with
    | some p, some d => reply (flatePostFlat (some p) d) | _, _ => "bad-op"
  | "c05.lit.sd", [d, x, t] =>
    match parseDict d, unhexS x, parseTable t with
    | some d, some x, some t =>
      reply (streamDecodeDLit { inflate := lookupTable t, ccitt := fun _ _ => none } d x)
    | _, _, _ => "bad-op"
  | "c05.heap", ops :: t :: streams =>
    match (ops.splitOn ",").mapM parseHOp, parseTable t, parseStreams streams with
    | some ops, some t, some st => heapReply { inflate := lookupTable t, ccitt := fun _ _ => none } st ops
    | _, _, _ => "bad-op"
  | "c05.writeslax", st :: t :: ms =>
    match parseStages st, parseTable t, ms.mapM unhexS with
    | some st, some t, some ms => toString (chainWritesLaxL (lookupTable t) st ms)
    | _, _, _ => "bad-op"
  | "c05.writes", st :: t :: ms =>
    match parseStages st, parseTable t, ms.mapM unhexS with
    | some st, some t, some ms => toString (chainWritesL (lookupTable t) st ms)
    | _, _, _ => "bad-op"
  | "c05.conf", [st, d] =>
    match parseStages st, parseDict d with
    | some st, some d => toString (conformingB d st)
    | _, _ => "bad-op"
  | "c05.sd", [d, x, t] =>
    match parseDict d, unhexS x, parseTable t with
    | some d, some x, some t =>
      reply (streamDecodeD { inflate := lookupTable t, ccitt := fun _ _ => none } d x)
    | _, _, _ => "bad-op"
  | "c05.sdc", [d, x, t, ct] =>
    match parseDict d, unhexS x, parseTable t, parseCTable ct with
    | some d, some x, some t, some ct =>
      reply (streamDecodeD { inflate := lookupTable t, ccitt := lookupCTable ct } d x)
    | _, _, _, _ => "bad-op"
  | "c05.sdcz", [d, x, t, ct] =>
    match parseDict d, unhexS x, parseTable t, parseCTable ct with
    | some d, some x, some t, some ct =>
      replyZ (streamDecodeD { inflate := lookupTable t, ccitt := lookupCTable ct } d x)
    | _, _, _, _ => "bad-op"
  | "c05.sess", calls :: t :: streams =>
    match (calls.splitOn ",").mapM String.toNat?, parseTable t, parseStreams streams with
    | some is, some t, some st =>
      "|".intercalate ((runSession { inflate := lookupTable t, ccitt := fun _ _ => none } st is).map reply)
    | _, _, _ => "bad-op"
  | "c05.hex", [d] => match unhexS d with
    | some d => reply (hexDecode d) | none => "bad-op"
  | "c05.a85", [d] => match unhexS d with
    | some d => reply (a85Decode d) | none => "bad-op"
  | "c05.spec.hex", [d] => match unhexS d with
    | some d => reply (hexSpec d) | none => "bad-op"
  | "c05.spec.a85", [d] => match unhexS d with
    | some d => reply (a85Spec d) | none => "bad-op"
  | "c05.pred", [p, d] => match parseParams p, unhexS d with
    | some p, some d => reply (flatePost (some p) d) | _, _ => "bad-op"
  | "c05.chain", [f, p, d, t] =>
    match parseFilter f, parseDParms p, unhexS d, parseTable t with
    | some f, some p, some d, some t =>
      reply (streamDecode { inflate := lookupTable t, ccitt := fun _ _ => none } f p d)
    | _, _, _, _ => "bad-op"
  | "c05.enc.hex", [u, d] => match unhexS d with
    | some d => reply (some (hexEncode (u == "u") d)) | none => "bad-op"
  | "c05.enc.a85", [d] => match unhexS d with
    | some d => reply (some (a85Encode d)) | none => "bad-op"
  | "c05.enc.png", [colors, columns, tags, d] =>
    match colors.toNat?, columns.toNat?, unhexS tags, unhexS d with
    | some colors, some columns, some tags, some d => reply (some (pngPredict colors columns tags d))
    | _, _, _, _ => "bad-op"
  | "c05.enc.tiff", [colors, columns, d] =>
    match colors.toNat?, columns.toNat?, unhexS d with
    | some colors, some columns, some d => reply (some (tiffPredict colors columns d))
    | _, _, _ => "bad-op"
  | _, _ => "bad-op"

end Tabula.C05H
