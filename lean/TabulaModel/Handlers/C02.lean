import TabulaModel.Util
import TabulaModel.Model.Bounds
import TabulaModel.Model.BoundsCore
import TabulaModel.Model.BoundsData
import TabulaModel.Model.BoundsOffice
namespace Tabula.C02H
open Tabula Tabula.Bounds

def ints? (s : String) : Option (List Int) :=
  if s == "-" then some [] else (s.splitOn ",").mapM String.toInt?

def nats? (s : String) : Option (List Nat) :=
  if s == "-" then some [] else (s.splitOn ",").mapM String.toNat?

/-- node: `<num>:p` or `<num>:k<kid>.<kid>…` (`k` alone = no kids) -/
def parseNode (s : String) : Option (Nat × Node) :=
  match s.splitOn ":" with
  | [n, "p"] => n.toNat?.map (·, .page)
  | [n, ks] =>
    match ks.toList with
    | 'k' :: r =>
      let body := String.ofList r
      do
        let n ← n.toNat?
        let kids ← if body == "" then some [] else (body.splitOn ".").mapM String.toNat?
        pure (n, .pages kids)
    | _ => none
  | _ => none

/-! ### stage 1: Model/BoundsCore.lean -/
section Core
open Tabula.BoundsCore

def readNum : List Char → Nat → Nat × List Char
  | [], acc => (acc, [])
  | c :: cs, acc => if c.isDigit then readNum cs (acc * 10 + (c.toNat - 48)) else (acc, cs)

/-- prefix code of a page-tree value: `r<n>.` reference, `p` page, `o` other, `k<pv>` a /Pages
node with that /Kids value, `a<pv>…e` an array -/
def parsePV : Nat → List Char → Option (PV × List Char)
  | 0, _ => none
  | _ + 1, [] => none
  | f + 1, c :: cs =>
    if c = 'r' then let (n, rest) := readNum cs 0; some (.ref n, rest)
    else if c = 'p' then some (.page, cs)
    else if c = 'o' then some (.other, cs)
    else if c = 'k' then (parsePV f cs).map (fun (v, r) => (.pages v, r))
    else if c = 'a' then
      (parsePVs f cs []).map (fun (vs, r) => (.arr vs, r))
    else none
where parsePVs : Nat → List Char → List PV → Option (List PV × List Char)
  | 0, _, _ => none
  | _ + 1, [], _ => none
  | f + 1, c :: cs, acc =>
    if c = 'e' then some (acc.reverse, cs)
    else match parsePV f (c :: cs) with
      | none => none
      | some (v, r) => parsePVs f r (v :: acc)

def pvOf (s : String) : Option PV :=
  match parsePV (2 * s.length + 2) s.toList with
  | some (v, []) => some v
  | _ => none

def pnode (s : String) : Option (Nat × PV) :=
  match s.splitOn "=" with
  | [n, v] => do pure ((← n.toNat?), (← pvOf v))
  | _ => none

/-- same prefix code for `ResolveDeep` values: `r<n>.`, `l<tag>.` leaf, `a…e` -/
def parseRV : Nat → List Char → Option (RV × List Char)
  | 0, _ => none
  | _ + 1, [] => none
  | f + 1, c :: cs =>
    if c = 'r' then let (n, rest) := readNum cs 0; some (.ref n, rest)
    else if c = 'l' then let (n, rest) := readNum cs 0; some (.leaf n, rest)
    else if c = 'a' then (parseRVs f cs []).map (fun (vs, r) => (.arr vs, r))
    else none
where parseRVs : Nat → List Char → List RV → Option (List RV × List Char)
  | 0, _, _ => none
  | _ + 1, [], _ => none
  | f + 1, c :: cs, acc =>
    if c = 'e' then some (acc.reverse, cs)
    else match parseRV f (c :: cs) with
      | none => none
      | some (v, r) => parseRVs f r (v :: acc)

def rvOf (s : String) : Option RV :=
  match parseRV (2 * s.length + 2) s.toList with
  | some (v, []) => some v
  | _ => none

def rnode (s : String) : Option (Nat × RV) :=
  match s.splitOn "=" with
  | [n, v] => do pure ((← n.toNat?), (← rvOf v))
  | _ => none

mutual
def showRV : RV → String
  | .ref n => s!"r{n}."
  | .leaf t => s!"l{t}."
  | .arr items => "a" ++ showRVs items ++ "e"
def showRVs : List RV → String
  | [] => ""
  | v :: rest => showRV v ++ showRVs rest
end

def lnode (s : String) : Option (Nat × LObj) :=
  match s.splitOn ":" with
  | [n, "i"] => n.toNat?.map (·, .int)
  | [n, "o"] => n.toNat?.map (·, .other)
  | [n, "s"] => n.toNat?.map (·, .stream)
  | [n, k] =>
    match k.toList with
    | 'r' :: r => do pure ((← n.toNat?), LObj.streamRef (← (String.ofList r).toNat?))
    | _ => none
  | _ => none

def showL : Except LErr LKind → String
  | .ok .int => "ok-int"
  | .ok .other => "ok-other"
  | .ok .stream => "ok-stream"
  | .error .notFound => "notfound"
  | .error .selfRef => "self"
  | .error .tooDeep => "deep"
  | .error .lengthType => "ltype"
  | .error .fuel => "out-of-fuel"

def listOf {α : Type} (f : String → Option α) (s : String) (sep : String) : Option (List α) :=
  if s == "-" then some [] else (s.splitOn sep).mapM f

def tok? (s : String) : Option (Option Int) :=
  if s == "x" then some none else s.toInt?.map some

def handleCore (op : String) (args : List String) : Option String :=
  match op, args with
  | "c02.readbytes", [n, avail] =>
    match n.toInt?, avail.toNat? with
    | some n, some a =>
      some (match readBytes n a with
        | .bad => "bad"
        | .eof g => s!"eof {g}"
        | .ok g => s!"ok {g}")
    | _, _ => some "bad-op"
  | "c02.load", [graph, calls] =>
    match listOf lnode graph ";", listOf String.toNat? calls "," with
    | some g, some cs =>
      some (",".intercalate ((getObjectHist g [] cs).map (fun r => showL r.res)))
    | _, _ => some "bad-op"
  | "c02.ptree2", [declared, nodes] =>
    match listOf pnode nodes ";" with
    | some g =>
      (match lookupL g 1 with
       | none => some "bad-op"
       | some root =>
         let d : Option Int := if declared == "int" then some 0 else none
         some (match pageCount g root d with
           | some p => s!"ok {p}"
           | none => "err"))
    | none => some "bad-op"
  | "c02.objstm", [n, first, len, toks, index] =>
    match n.toInt?, first.toInt?, len.toNat?, listOf tok? toks ",", index.toInt? with
    | some n, some first, some len, some toks, some index =>
      some (match (objstmOpen n first len toks).bind (objstmSlice · index) with
        | some (num, a, b) =>
          -- the parser fails on an empty slice; the body is the digits 1..9 repeating
          if a = b then "err" else s!"ok {num} {b - a} {(a - first.toNat) % 9 + 1}"
        | none => "err")
    | _, _, _, _, _ => some "bad-op"
  | "c02.rdeep", [mode, lim, root, nodes] =>
    match lim.toNat?, rvOf root, listOf rnode nodes ";" with
    | some lim, some v, some g =>
      let isReader := mode.startsWith "reader"
      let countOnly := mode.endsWith "-count"
      let m : RMode := if isReader then readerMode else resolverMode lim
      let (r, st) := resolveDeepTop g m v
      -- reader: the objects that entered the cache; resolver: the calls of ResolveReference
      let cnt := if isReader then (st.fetched.filter (fun n => (lookupL g n).isSome)).length
                 else st.fetched.length
      some (match r with
        | .ok x => if countOnly then s!"ok - {cnt}" else s!"ok {showRV x} {cnt}"
        | .error .missing => s!"err-missing {cnt}"
        | .error .tooDeep => s!"err-deep {cnt}"
        | .error .circular => s!"err-circular {cnt}"
        | .error .fuel => "out-of-fuel")
    | _, _, _ => some "bad-op"
  | _, _ => none

end Core

/-! ### stage 2: Model/BoundsData.lean -/
section Data
open Tabula.BoundsData

def pairOf (sep : String) (s : String) : Option (Int × Int) :=
  match s.splitOn sep with
  | [a, b] => do pure ((← a.toInt?), (← b.toInt?))
  | _ => none

def pairNat (sep : String) (s : String) : Option (Int × Nat) :=
  match s.splitOn sep with
  | [a, b] => do pure ((← a.toInt?), (← b.toNat?))
  | _ => none

/-- prefix code of a colour-space value: `r<n>.` `n<id>.` `i<cs>` `c` `a<id>.` `o` -/
def parseCS : Nat → List Char → Option (CS × List Char)
  | 0, _ => none
  | _ + 1, [] => none
  | f + 1, c :: cs =>
    if c = 'r' then let (n, rest) := readNum cs 0; some (.ref n, rest)
    else if c = 'n' then let (n, rest) := readNum cs 0; some (.name n, rest)
    else if c = 'a' then let (n, rest) := readNum cs 0; some (.arrName n, rest)
    else if c = 'c' then some (.icc, cs)
    else if c = 'o' then some (.other, cs)
    else if c = 'i' then (parseCS f cs).map (fun (v, r) => (.indexed v, r))
    else none

def csOf (s : String) : Option CS :=
  match parseCS (s.length + 1) s.toList with
  | some (v, []) => some v
  | _ => none

def csNode (s : String) : Option (Nat × CS) :=
  match s.splitOn "=" with
  | [n, v] => do pure ((← n.toNat?), (← csOf v))
  | _ => none

def pline (s : String) : Option PLine :=
  match s.splitOn "|" with
  | [g, fs] => do pure ⟨(← g.toInt?), (← listOf (pairNat ":") fs ",")⟩
  | _ => none

def showRun (r : Nat × List (Nat × Nat)) : String :=
  s!"{r.1}|" ++ (if r.2.isEmpty then "-" else ",".intercalate (r.2.map (fun p => s!"{p.1}:{p.2}")))

def handleData (op : String) (args : List String) : Option String :=
  match op, args with
  | "c02.ccitt", [cols, rows, avail] =>
    match cols.toInt?, rows.toInt?, avail.toNat? with
    | some c, some r, some a =>
      some (match (ccittDecode c r a).1 with
        | .badParams => "bad"
        | .tooLarge => "toolarge"
        | .ok n => s!"ok {n}")
    | _, _, _ => some "bad-op"
  | "c02.gaps", [w, frags] =>
    match w.toInt?, listOf (pairOf ":") frags "," with
    | some w, some fs =>
      let gs := findGaps w fs
      some (if gs.isEmpty then "-" else ",".intercalate (gs.map (fun p => s!"{p.1}:{p.2}")))
    | _, _ => some "bad-op"
  | "c02.topng", [cs, bpc, w, h, len] =>
    match bpc.toInt?, w.toInt?, h.toInt?, len.toNat? with
    | some bpc, some w, some h, some len =>
      let c : ImgCS := if cs == "rgb" then .rgb else if cs == "cmyk" then .cmyk else .gray
      some (match toPNG c bpc w h len with
        | .ok _ => "ok"
        | .error .fit => "err-fit"
        | .error .data => "err-data"
        | .error .bpc => "err-bpc")
    | _, _, _, _ => some "bad-op"
  | "c02.jpeg", [w, h] =>
    match w.toInt?, h.toInt? with
    | some w, some h => some (if jpegFits w h then "pass" else "toolarge")
    | _, _ => some "bad-op"
  | "c02.cspace", [root, nodes] =>
    match csOf root, listOf csNode nodes ";" with
    | some v, some g =>
      some (match parseColorSpace g v with
        | some (id, _) => s!"name {id}"
        | none => "out-of-fuel")
    | _, _ => some "bad-op"
  | "c02.layout", [lines] =>
    match listOf pline lines ";" with
    | some ls => some (";".intercalate ((preserveLayout ls true).map showRun))
    | none => some "bad-op"
  | "c02.contents", [lens] =>
    match listOf String.toNat? lens "," with
    | some ls => some (match concatContents ls 0 with
        | some _ => "ok"
        | none => "err")
    | none => some "bad-op"
  | _, _ => none

end Data

/-! ### stage 3: Model/BoundsOffice.lean -/
section Office
open Tabula.BoundsOffice

def optInt? (s : String) : Option (Option Int) :=
  if s == "x" then some none else s.toInt?.map some

def hexNats (s : String) : Option (List Nat) := (unhex s).map (·.map UInt8.toNat)

/-- prefix code of inline content: `l` leaf, `s` skipped element, `b…e` container -/
def parseInl : Nat → List Char → List Inl → Option (List Inl × List Char)
  | 0, _, _ => none
  | _ + 1, [], acc => some (acc.reverse, [])
  | f + 1, c :: cs, acc =>
    if c = 'l' then parseInl f cs (.leaf :: acc)
    else if c = 's' then parseInl f cs (.skip :: acc)
    else if c = 'e' then some (acc.reverse, cs)
    else if c = 'b' then
      match parseInl f cs [] with
      | none => none
      | some (kids, rest) => parseInl f rest (.box kids :: acc)
    else none

def inlOf (s : String) : Option (List Inl) :=
  if s == "-" then some [] else
  match parseInl (s.length + 2) s.toList [] with
  | some (v, []) => some v
  | _ => none

/-- `n` nested containers around one leaf, without building the string -/
def nestInl : Nat → Inl → Inl
  | 0, x => x
  | n + 1, x => nestInl n (.box [x])

/-- tree code: `(` opens a node, `)` closes it -/
def parseHT : Nat → List Char → List HT → Option (List HT × List Char)
  | 0, _, _ => none
  | _ + 1, [], acc => some (acc.reverse, [])
  | f + 1, c :: cs, acc =>
    if c = ')' then some (acc.reverse, cs)
    else if c = '(' then
      match parseHT f cs [] with
      | none => none
      | some (kids, rest) => parseHT f rest (.node kids :: acc)
    else none

def htOf (s : String) : Option HT :=
  match parseHT (s.length + 2) s.toList [] with
  | some ([t], []) => some t
  | _ => none

def nestHTn : Nat → HT → HT
  | 0, x => x
  | n + 1, x => nestHTn n (.node [x])

def regionOf (s : String) : Option Region :=
  match s.splitOn ":" with
  | [a, b, c, d] => do pure ⟨(← a.toNat?), (← b.toNat?), (← c.toInt?), (← d.toInt?)⟩
  | _ => none

def sheetOf (s : String) : Option SheetReq :=
  match s.splitOn ":" with
  | [a, b, c, d] => do pure ⟨(← a.toNat?), (← b.toNat?), (← c.toNat?), (← d.toNat?)⟩
  | _ => none

def pairNN (s : String) : Option (Nat × Nat) :=
  match s.splitOn ":" with
  | [a, b] => do pure ((← a.toNat?), (← b.toNat?))
  | _ => none

def rowOf (s : String) : Option (List (Nat × Nat)) :=
  if s == "_" then some [] else (s.splitOn ",").mapM pairNN

def showBools (bs : List Bool) : String := String.ofList (bs.map (fun b => if b then '1' else '0'))

def showRows (rows : TRows) : String :=
  if rows.isEmpty then "-" else
  ";".intercalate (rows.map (fun r => if r.isEmpty then "_" else ",".intercalate (r.map (fun c => s!"{c.1}:{c.2}"))))

def handleOffice (op : String) (args : List String) : Option String :=
  match op, args with
  | "c02.span", [v] =>
    match optInt? v with
    | some v => some s!"{acceptSpan v}"
    | none => some "bad-op"
  | "c02.ilvl", [h] =>
    match hexNats h with
    | some cs => some s!"{parseListLevel cs}"
    | none => some "bad-op"
  | "c02.lvl", [v] =>
    match v.toInt? with
    | some v => some s!"{clampLevel v}"
    | none => some "bad-op"
  | "c02.spaces", [v] =>
    match optInt? v with
    | some v => some s!"{spaceRun v}"
    | none => some "bad-op"
  | "c02.inline", [lim, nest, body] =>
    match lim.toNat?, nest.toNat?, inlOf body with
    | some lim, some nest, some kids =>
      -- the generated content wrapped in `nest` further containers
      let content := if nest = 0 then kids else [nestInl (nest - 1) (.box kids)]
      some (match decodeParagraph lim content with
        | some n => s!"ok {n}"
        | none => "err")
    | _, _, _ => some "bad-op"
  | "c02.chain", [styles, id] =>
    match listOf pairNN styles ",", id.toNat? with
    | some st, some id =>
      some (match styleChain st id with
        | some ch => if ch.isEmpty then "-" else ",".intercalate (ch.map toString)
        | none => "out-of-fuel")
    | _, _ => some "bad-op"
  | "c02.col", [h] =>
    match hexNats h with
    | some cs => some s!"{columnToIndex cs}"
    | none => some "bad-op"
  | "c02.merges", [maxRow, maxCol, regions] =>
    match maxRow.toNat?, maxCol.toNat?, listOf regionOf regions "," with
    | some r, some c, some rs => some (showBools (mergeAll r c rs).1)
    | _, _, _ => some "bad-op"
  | "c02.sheets", [reqs] =>
    match listOf sheetOf reqs "," with
    | some rs => some (showBools (loadSheets ⟨0, []⟩ rs))
    | none => some "bad-op"
  | "c02.tgrid", [rows] =>
    match listOf rowOf rows ";" with
    | some rs => some (showRows (limitTableGrid rs))
    | none => some "bad-op"
  | "c02.tree", [limit, nest, shape] =>
    match limit.toNat?, nest.toNat?, htOf shape with
    | some limit, some nest, some t =>
      some (match treeDeeperThan (nestHTn nest t) limit with
        | some true => "deeper"
        | some false => "ok"
        | none => "out-of-fuel")
    | _, _, _ => some "bad-op"
  | "c02.treeopen", [shape] =>
    match htOf shape with
    | some t =>
      some (match treeRefused t with
        | some true => "refused"
        | some false => "ok"
        | none => "out-of-fuel")
    | none => some "bad-op"
  | "c02.cmap4", [st, en] =>
    match listOf String.toNat? st ",", listOf String.toNat? en "," with
    | some st, some en =>
      let (runs, w) := cmap4 st en
      let sum := (runs.map (fun r => (r.1 + r.2) * (r.2 + 1 - r.1) / 2)).foldl (· + ·) 0
      some s!"{w} {sum}"
    | _, _ => some "bad-op"
  | "c02.bfarr", [start, endc, n] =>
    match start.toNat?, endc.toNat?, n.toNat? with
    | some s, some e, some n =>
      let codes := bfRangeArray s e n s
      some s!"{codes.length} {codes.foldl (· + ·) 0}"
    | _, _, _ => some "bad-op"
  | _, _ => none

end Office

def handle (op : String) (args : List String) : String :=
  match handleCore op args with
  | some r => r
  | none =>
  match handleData op args with
  | some r => r
  | none =>
  match handleOffice op args with
  | some r => r
  | none =>
  match op, args with
  | "c02.xrefstream", [w, idx, len] =>
    match ints? w, ints? idx, len.toNat? with
    | some w, some idx, some len =>
      (match checkXRefStream w idx len with
       | some (ew, n) => s!"ok {ew} {n}"
       | none => "err")
    | _, _, _ => "bad-op"
  | "c02.grid", [r, c] =>
    match r.toNat?, c.toNat? with
    | some r, some c => if gridAccepted r c then "ok" else "err"
    | _, _ => "bad-op"
  | "c02.ptree", [kids, nodes] =>
    match nats? kids, (if nodes == "-" then some [] else (nodes.splitOn ";").mapM parseNode) with
    | some kids, some g =>
      (match loadPages g kids with
       | some (some ls) => s!"ok {ls.length}"
       | some none => "err"
       | none => "out-of-fuel")
    | _, _ => "bad-op"
  | _, _ => "bad-op"

end Tabula.C02H
