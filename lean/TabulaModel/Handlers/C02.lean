import TabulaModel.Util
namespace Tabula.C02H

def handle (_op : String) (_args : List String) : String := "bad-op"

end Tabula.C02H
