import TabulaModel.Util
import TabulaModel.Model.Bounds
namespace Tabula.C02H
open Tabula Tabula.Bounds

def ints? (s : String) : Option (List Int) :=
  if s == "-" then some [] else (s.splitOn ",").mapM String.toInt?

def nats? (s : String) : Option (List Nat) :=
  if s == "-" then some [] else (s.splitOn ",").mapM String.toNat?

/-- node: `<num>:p` or `<num>:k<kid>.<kid>…` (`k` alone = no kids) -/
def parseNode (s : String) : Option (Nat × Node) :=
  match s.splitOn ":" with
  | [n, "p"] => n.toNat?.map (·, .page)
  | [n, ks] =>
    match ks.toList with
    | 'k' :: r =>
      let body := String.ofList r
      do
        let n ← n.toNat?
        let kids ← if body == "" then some [] else (body.splitOn ".").mapM String.toNat?
        pure (n, .pages kids)
    | _ => none
  | _ => none

def handle (op : String) (args : List String) : String :=
  match op, args with
  | "c02.xrefstream", [w, idx, len] =>
    match ints? w, ints? idx, len.toNat? with
    | some w, some idx, some len =>
      (match checkXRefStream w idx len with
       | some (ew, n) => s!"ok {ew} {n}"
       | none => "err")
    | _, _, _ => "bad-op"
  | "c02.grid", [r, c] =>
    match r.toNat?, c.toNat? with
    | some r, some c => if gridAccepted r c then "ok" else "err"
    | _, _ => "bad-op"
  | "c02.ptree", [kids, nodes] =>
    match nats? kids, (if nodes == "-" then some [] else (nodes.splitOn ";").mapM parseNode) with
    | some kids, some g =>
      (match loadPages g kids with
       | some (some ls) => s!"ok {ls.length}"
       | some none => "err"
       | none => "out-of-fuel")
    | _, _ => "bad-op"
  | _, _ => "bad-op"

end Tabula.C02H
