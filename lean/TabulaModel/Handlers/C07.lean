import TabulaModel.Util
import TabulaModel.Model.FontDecode
import TabulaModel.Model.EncodingRef
/-!
Line protocol of property C07 (see harness/c07). Byte strings are hex (`-` = empty),
scalar values are lower-case hex numbers separated by single spaces (`-` = no scalar).
-/
namespace Tabula.C07H
open Tabula Tabula.UTF16 Tabula.Encoding Tabula.CMap Tabula.FontDecode

def unhexN (s : String) : Option (List Nat) := (unhex s).map fun b => b.map (·.toNat)

def hexNat (n : Nat) : String := String.ofList (Nat.toDigits 16 n)

def scalars (l : List Nat) : String := if l.isEmpty then "-" else " ".intercalate (l.map hexNat)
def scalarsC (l : List Nat) : String := if l.isEmpty then "-" else ",".intercalate (l.map hexNat)

def hexNat? (s : String) : Option Nat :=
  if s.isEmpty then none else
  s.toList.foldl (fun acc c => match acc, hexDigitVal c with
    | some a, some d => some (a * 16 + d) | _, _ => none) (some 0)

def scalarsC? (s : String) : Option (List Nat) :=
  if s == "-" then some [] else (s.splitOn ",").mapM hexNat?

/-- `p>q;p>q` table of NFC results supplied by the harness (`~` = empty) -/
def nfcTable? (s : String) : Option (List (List Nat × List Nat)) :=
  if s == "~" then some [] else
  (s.splitOn ";").mapM fun e => match e.splitOn ">" with
    | [p, q] => do let p ← scalarsC? p; let q ← scalarsC? q; pure (p, q)
    | _ => none

def refOf (v : String) : Option (Array (List Nat)) :=
  if v = "winAnsiTable" then some C07.winAnsiRef
  else if v = "macRomanTable" then some C07.macRomanRef
  else if v = "pdfDocTable" then some C07.pdfDocRef
  else if v = "standardEncodingTableData" then some C07.standardRef
  else if v = "symbolEncodingTable" then some C07.symbolRef
  else if v = "zapfDingbatsEncodingTable" then some C07.zapfRef
  else none

def insertSorted (p : Nat × List Nat) : List (Nat × List Nat) → List (Nat × List Nat)
  | [] => [p]
  | q :: t => if p.1 < q.1 then p :: q :: t else q :: insertSorted p t

/-- the Go map as sorted `(code,text)` pairs: newest binding of each code only -/
def canonChars (chars : List (Nat × List Nat)) : List (Nat × List Nat) :=
  let rec go : List (Nat × List Nat) → List Nat → List (Nat × List Nat) → List (Nat × List Nat)
    | [], _, acc => acc
    | p :: t, seen, acc => if seen.contains p.1 then go t seen acc else go t (p.1 :: seen) (insertSorted p acc)
  go chars [] []

def dumpState (cm : CMap) : String :=
  let cs := (canonChars cm.chars).map fun p => s!"{hexNat p.1}:{scalarsC p.2}"
  let rs := cm.ranges.map fun r => s!"{hexNat r.start}:{hexNat r.stop}:{hexNat r.startUnicode}:{scalarsC r.units}"
  s!"bw={cm.byteWidth} abw={cm.actualByteWidth} chars={";".intercalate cs} ranges={";".intercalate rs}"

def optScalars : Option (List Nat) → String
  | some l => "ok " ++ scalars l
  | none => "err"

def handle (op : String) (args : List String) : String :=
  match op, args with
  | "c07.enc", [n, d] => match unhexN n, unhexN d with
    | some n, some d => (match getEncoding n with
      | some e => s!"{e.name} {scalars (Encoding.decodeString e.table d)}"
      | none => "model-err")
    | _, _ => "bad-op"
  | "c07.dec", [n, b] => match unhexN n, b.toNat? with
    | some n, some b => (match getEncoding n with
      | some e => (match decodeByte e.table b with | some r => toString r | none => "model-err")
      | none => "model-err")
    | _, _ => "bad-op"
  | "c07.ref", [v, b] => match refOf v, b.toNat? with
    | some t, some b => (match t[b]? with | some l => scalarsC l | none => "bad-op")
    | _, _ => "bad-op"
  | "c07.u16be", [d] => match unhexN d with
    | some d => scalars (decodeUTF16BE d) | none => "bad-op"
  | "c07.u16le", [d] => match unhexN d with
    | some d => scalars (decodeUTF16LE d) | none => "bad-op"
  | "c07.cu16", [d] => match unhexN d with
    | some d => optScalars (cmapDecodeUTF16BE d) | none => "bad-op"
  | "c07.h2u", [d] => match unhexN d with
    | some d => optScalars (hexToUnicode d) | none => "bad-op"
  | "c07.hex32", [d] => match unhexN d with
    | some d => (match parseHexToUint32 d with | some v => s!"ok {v}" | none => "err") | none => "bad-op"
  | "c07.valid", [d] => match unhexN d with
    | some d => scalars (toValidUTF8 d) | none => "bad-op"
  | "c07.cmapstate", [p] => match unhexN p with
    | some p => dumpState (parseCMapData p) | none => "bad-op"
  | "c07.cmap", [p, d] => match unhexN p, unhexN d with
    | some p, some d => scalars (lookupString (parseCMapData p) d) | _, _ => "bad-op"
  | "c07.cmapw", [p, w, d] => match unhexN p, w.toNat?, unhexN d with
    | some p, some w, some d =>
      if w = 0 then "bad-op" else scalars (lookupWidth (parseCMapData p) w (d.length + 1) d)
    | _, _, _ => "bad-op"
  | "c07.lookup", [p, c] => match unhexN p, c.toNat? with
    | some p, some c => scalars (lookup (parseCMapData p) c) | _, _ => "bad-op"
  | "c07.font", [p, n, d, t] =>
    match (if p == "~" then some none else (unhexN p).map some), unhexN n, unhexN d, nfcTable? t with
    | some p, some n, some d, some tbl =>
      let f : Font := ⟨p.map parseCMapData, n⟩
      (match preNFC f d with
       | none => "model-err"
       | some pre => match tbl.find? (fun e => e.1 == pre) with
         | some e => scalars e.2
         | none => "nfc-missing " ++ scalars pre)
    | _, _, _, _ => "bad-op"
  | "c07.nofont", [d, t] => match unhexN d, nfcTable? t with
    | some d, some tbl =>
      let pre := showTextNoFontPre d
      (match tbl.find? (fun e => e.1 == pre) with
       | some e => scalars e.2
       | none => "nfc-missing " ++ scalars pre)
    | _, _ => "bad-op"
  | _, _ => "bad-op"

end Tabula.C07H
