import TabulaModel.Util
import TabulaModel.Model.FontDecode
import TabulaModel.Model.EncodingRef
import TabulaModel.Model.CMapRender
import TabulaModel.Model.FormFonts
import TabulaModel.Lemmas.CMapArrangeDefs
/-!
Line protocol of property C07 (see harness/c07). Byte strings are hex (`-` = empty),
scalar values are lower-case hex numbers separated by single spaces (`-` = no scalar).
-/
namespace Tabula.C07H
open Tabula Tabula.UTF16 Tabula.Encoding Tabula.CMap Tabula.FontDecode

def unhexN (s : String) : Option (List Nat) := (unhex s).map fun b => b.map (·.toNat)

def hexNat (n : Nat) : String := String.ofList (Nat.toDigits 16 n)

def scalars (l : List Nat) : String := if l.isEmpty then "-" else " ".intercalate (l.map hexNat)
def scalarsC (l : List Nat) : String := if l.isEmpty then "-" else ",".intercalate (l.map hexNat)

def hexNat? (s : String) : Option Nat :=
  if s.isEmpty then none else
  s.toList.foldl (fun acc c => match acc, hexDigitVal c with
    | some a, some d => some (a * 16 + d) | _, _ => none) (some 0)

def scalarsC? (s : String) : Option (List Nat) :=
  if s == "-" then some [] else (s.splitOn ",").mapM hexNat?

/-- `p>q;p>q` table of NFC results supplied by the harness (`~` = empty) -/
def nfcTable? (s : String) : Option (List (List Nat × List Nat)) :=
  if s == "~" then some [] else
  (s.splitOn ";").mapM fun e => match e.splitOn ">" with
    | [p, q] => do let p ← scalarsC? p; let q ← scalarsC? q; pure (p, q)
    | _ => none

def refOf (v : String) : Option (Array (List Nat)) :=
  if v = "winAnsiTable" then some C07.winAnsiRef
  else if v = "macRomanTable" then some C07.macRomanRef
  else if v = "pdfDocTable" then some C07.pdfDocRef
  else if v = "standardEncodingTableData" then some C07.standardRef
  else if v = "symbolEncodingTable" then some C07.symbolRef
  else if v = "zapfDingbatsEncodingTable" then some C07.zapfRef
  else none

def insertSorted (p : Nat × List Nat) : List (Nat × List Nat) → List (Nat × List Nat)
  | [] => [p]
  | q :: t => if p.1 < q.1 then p :: q :: t else q :: insertSorted p t

/-- the Go map as sorted `(code,text)` pairs: newest binding of each code only -/
def canonChars (chars : List (Nat × List Nat)) : List (Nat × List Nat) :=
  let rec go : List (Nat × List Nat) → List Nat → List (Nat × List Nat) → List (Nat × List Nat)
    | [], _, acc => acc
    | p :: t, seen, acc => if seen.contains p.1 then go t seen acc else go t (p.1 :: seen) (insertSorted p acc)
  go chars [] []

def dumpState (cm : CMap) : String :=
  let cs := (canonChars cm.chars).map fun p => s!"{hexNat p.1}:{scalarsC p.2}"
  let rs := cm.ranges.map fun r => s!"{hexNat r.start}:{hexNat r.stop}:{hexNat r.startUnicode}:{scalarsC r.units}"
  s!"bw={cm.byteWidth} abw={cm.actualByteWidth} chars={";".intercalate cs} ranges={";".intercalate rs}"


/-- bytes as lower-case hex (`-` = empty) -/
def hexOut (l : List Nat) : String :=
  if l.isEmpty then "-" else String.ofList (l.flatMap fun b => [hexChar (b / 16), hexChar (b % 16)])

/-- policy flags: a string over `o` (oneLine) `t` (tight) `c` (crlf) `u` (upper), then `/wrapArr` -/
def policy? (s : String) : Option Policy :=
  match s.splitOn "/" with
  | [fl, wr] => wr.toNat?.map fun n =>
    { oneLine := fl.contains 'o', tight := fl.contains 't', crlf := fl.contains 'c', upper := fl.contains 'u', wrapArr := n }
  | _ => none

def form? (s : String) : Option Form :=
  if s = "bfchar" then some .bfchar else if s = "offset" then some .offset else if s = "array" then some .array
  else if s = "mixed" then some .mixed else if s = "override" then some .override else none

/-- runs `lo:t/t/..;lo:t/..` with each text a comma list of hex scalars (`~` = no runs) -/
def runs? (s : String) : Option (List Run) :=
  if s == "~" then some [] else
  (s.splitOn ";").mapM fun r => match r.splitOn ":" with
    | [lo, ts] => do
      let lo ← hexNat? lo
      let ts ← (ts.splitOn "/").mapM scalarsC?
      pure ⟨lo, ts⟩
    | _ => none


/-! ### `c07.ext`: objects, page resources, content, NFC table -/

/-- a scalar that is no scalar: marks a string the NFC table has no answer for -/
def nfcMissing : Nat := 0x110000

def nfcOf (tbl : List (List Nat × List Nat)) (pre : List Nat) : List Nat :=
  match tbl.find? (fun e => e.1 == pre) with
  | some e => e.2
  | none => nfcMissing :: pre

/-- one object: `n:<hex body>` or `n:<hex dict>/<hex data|!>` (a stream; `!` = `Decode()` fails) -/
def extObj? (s : String) : Option (Nat × Except Reader.Err FormFonts.FVal) :=
  match s.splitOn ":" with
  | [n, body] => do
    let n ← n.toNat?
    match body.splitOn "/" with
    | [b] => do
      let b ← unhexN b
      match Pdf.coreParse b with
      | .ok (o, _) => pure (n, .ok (.obj o))
      | .error _ => pure (n, .error .err)
    | [d, data] => do
      let d ← unhexN d
      let dec ← if data == "!" then some none else (unhexN data).map some
      match Pdf.coreParse d with
      | .ok (.dict kv, _) => pure (n, .ok (.stream kv dec))
      | _ => pure (n, .error .err)
    | _ => none
  | _ => none

def extObjs? (s : String) : Option (List (Nat × Except Reader.Err FormFonts.FVal)) :=
  if s == "~" then some [] else (s.splitOn ",").mapM extObj?

def extTexts (l : List (List Nat)) : String :=
  if l.isEmpty then "-" else "|".intercalate (l.map scalarsC)


/-! ### `c07.reg`: the registration loop in two orders -/

def ltStr : List Nat → List Nat → Bool
  | [], [] => false
  | [], _ :: _ => true
  | _ :: _, [] => false
  | a :: as, b :: bs => if a < b then true else if b < a then false else ltStr as bs

def insertStr (k : List Nat) : List (List Nat) → List (List Nat)
  | [] => [k]
  | x :: r => if k == x then x :: r else if ltStr k x then k :: x :: r else x :: insertStr k r

/-- `Font.Differences` as the Go map prints when sorted by code: `code>rune;…` (hex), `~` = empty -/
def diffsOut (ds : FontDecode.Diffs) : String :=
  let es := (List.range 256).filterMap fun b => (FontDecode.diffLookup ds b).map fun r => s!"{hexNat b}>{hexNat r}"
  if es.isEmpty then "~" else ";".intercalate es

/-- the `code>rune;…` field of `c07.font` as a map history (first pair = newest; codes are distinct) -/
def diffs? (s : String) : Option FontDecode.Diffs :=
  if s == "~" then some [] else
  (s.splitOn ";").mapM fun e => match e.splitOn ">" with
    | [c, r] => do let c ← hexNat? c; let r ← hexNat? r; pure (c, some r)
    | _ => none

def fontLine (k : List Nat) (f : FontDecode.Font) : String :=
  s!"{hexOut k}={hexOut f.encoding}:{if f.toUnicode.isSome then "T" else "F"}:{diffsOut f.differences}"


/-! ### `c07.rprog` / `c07.spec` / `c07.spectext`: any arrangement of entries into sections -/

/-- one item: `c<code>:<text>`, `o<lo>:<t/t/..>` or `a<lo>:<t/t/..>` -/
def item? (s : String) : Option Item :=
  match s.toList with
  | k :: rest =>
    match (String.ofList rest).splitOn ":" with
    | [lo, ts] => do
      let lo ← hexNat? lo
      let ts ← (ts.splitOn "/").mapM scalarsC?
      if k = 'c' then (match ts with | [t] => some (.char lo t) | _ => none)
      else if k = 'o' then some (.offset ⟨lo, ts⟩)
      else if k = 'a' then some (.array ⟨lo, ts⟩)
      else none
    | _ => none
  | [] => none

/-- sections `c=item;item|r=item;..` (`~` = none) -/
def secs? (s : String) : Option (List Section) :=
  if s == "~" then some [] else
  (s.splitOn "|").mapM fun sec => match sec.splitOn "=" with
    | [k, its] => do
      let items ← (its.splitOn ";").mapM item?
      if k = "c" then some ⟨.bfchar, items⟩ else if k = "r" then some ⟨.bfrange, items⟩ else none
    | _ => none

def optScalars : Option (List Nat) → String
  | some l => "ok " ++ scalars l
  | none => "err"

def handle (op : String) (args : List String) : String :=
  match op, args with
  | "c07.enc", [n, d] => match unhexN n, unhexN d with
    | some n, some d => (match getEncoding n with
      | some e => s!"{e.name} {scalars (Encoding.decodeString e.table d)}"
      | none => "model-err")
    | _, _ => "bad-op"
  | "c07.dec", [n, b] => match unhexN n, b.toNat? with
    | some n, some b => (match getEncoding n with
      | some e => (match decodeByte e.table b with | some r => toString r | none => "model-err")
      | none => "model-err")
    | _, _ => "bad-op"
  | "c07.ref", [v, b] => match refOf v, b.toNat? with
    | some t, some b => (match t[b]? with | some l => scalarsC l | none => "bad-op")
    | _, _ => "bad-op"
  | "c07.u16be", [d] => match unhexN d with
    | some d => scalars (decodeUTF16BE d) | none => "bad-op"
  | "c07.u16le", [d] => match unhexN d with
    | some d => scalars (decodeUTF16LE d) | none => "bad-op"
  | "c07.cu16", [d] => match unhexN d with
    | some d => optScalars (cmapDecodeUTF16BE d) | none => "bad-op"
  | "c07.h2u", [d] => match unhexN d with
    | some d => optScalars (hexToUnicode d) | none => "bad-op"
  | "c07.hex32", [d] => match unhexN d with
    | some d => (match parseHexToUint32 d with | some v => s!"ok {v}" | none => "err") | none => "bad-op"
  | "c07.valid", [d] => match unhexN d with
    | some d => scalars (toValidUTF8 d) | none => "bad-op"
  | "c07.cmapstate", [p] => match unhexN p with
    | some p => dumpState (parseCMapData p) | none => "bad-op"
  | "c07.cmap", [p, d] => match unhexN p, unhexN d with
    | some p, some d => scalars (lookupString (parseCMapData p) d) | _, _ => "bad-op"
  | "c07.cmapw", [p, w, d] => match unhexN p, w.toNat?, unhexN d with
    | some p, some w, some d =>
      if w = 0 then "bad-op" else scalars (lookupWidth (parseCMapData p) w (d.length + 1) d)
    | _, _, _ => "bad-op"
  | "c07.lookup", [p, c] => match unhexN p, c.toNat? with
    | some p, some c => scalars (lookup (parseCMapData p) c) | _, _ => "bad-op"
  | "c07.glyph", [n] => match unhexN n with
    | some n => (match GlyphNames.glyphRune n with | some r => hexNat r | none => "-")
    | none => "bad-op"
  | "c07.font", [p, n, ds, d, t] =>
    match (if p == "~" then some none else (unhexN p).map some), unhexN n, diffs? ds, unhexN d, nfcTable? t with
    | some p, some n, some ds, some d, some tbl =>
      let f : Font := ⟨p.map parseCMapData, n, ds⟩
      (match preNFC f d with
       | none => "model-err"
       | some pre => match tbl.find? (fun e => e.1 == pre) with
         | some e => scalars e.2
         | none => "nfc-missing " ++ scalars pre)
    | _, _, _, _, _ => "bad-op"
  | "c07.nofont", [d, t] => match unhexN d, nfcTable? t with
    | some d, some tbl =>
      let pre := showTextNoFontPre d
      (match tbl.find? (fun e => e.1 == pre) with
       | some e => scalars e.2
       | none => "nfc-missing " ++ scalars pre)
    | _, _ => "bad-op"
  | "c07.render", [pol, f, w, rs] => match policy? pol, form? f, w.toNat?, runs? rs with
    | some p, some f, some w, some rs => hexOut (renderMap p f w rs)
    | _, _, _, _ => "bad-op"
  | "c07.entries", [f, rs] => match form? f, runs? rs with
    | some f, some rs => ";".intercalate ((entriesFor f rs).map fun e => s!"{hexNat e.1}:{scalarsC e.2}")
    | _, _ => "bad-op"
  | "c07.rprog", [pol, w, ss] => match policy? pol, w.toNat?, secs? ss with
    | some p, some w, some ss => hexOut (renderProgram p w ss)
    | _, _, _ => "bad-op"
  | "c07.spec", [w, ss, d] => match w.toNat?, secs? ss, unhexN d with
    | some w, some ss, some d => scalars (CMapArrange.specDecode ss w (d.length + 1) d)
    | _, _, _ => "bad-op"
  | "c07.spectext", [ss, c] => match secs? ss, hexNat? c with
    | some ss, some c => scalars (CMapArrange.specText ss c)
    | _, _ => "bad-op"
  | "c07.ext", [objs, pres, content, t] =>
    match extObjs? objs, (if pres == "~" then some none else (unhexN pres).map some), unhexN content, nfcTable? t with
    | some objs, some pres, some content, some tbl =>
      let res : FormFonts.FRes := fun n => match objs.find? (fun e => e.1 == n) with
        | some e => e.2
        | none => .error .err
      let pageRes : Option (Option Reader.Dict) := match pres with
        | none => some none
        | some b => match Pdf.coreParse b with
          | .ok (.dict kv, _) => some (some kv)
          | _ => none
      (match pageRes with
       | none => "bad-op"
       | some pr => match FormFonts.extract (nfcOf tbl) res pr content with
         | .ok ts => "ok " ++ extTexts ts
         | .error .unsupported => "model-err"
         | .error _ => "err")
    | _, _, _, _ => "bad-op"
  | "c07.reg", [objs, pres] =>
    match extObjs? objs, unhexN pres with
    | some objs, some b =>
      let fres : FormFonts.FRes := fun n => match objs.find? (fun e => e.1 == n) with
        | some e => e.2
        | none => .error .err
      let res := FormFonts.toRes fres
      (match Pdf.coreParse b with
       | .ok (.dict rd, _) =>
         (match Reader.fontsOf res (some rd) with
          | none => "none"
          | some fd =>
            let m1 := FormFonts.registerLoop res fd fd FormFonts.FontMap.empty
            let m2 := FormFonts.registerLoop res fd fd.reverse FormFonts.FontMap.empty
            let m3 := FormFonts.registerFonts res rd FormFonts.FontMap.empty
            let cands := (fd.map (·.1) ++ fd.map (fun kv => 47 :: kv.1)).foldl (fun acc k => insertStr k acc) []
            let same := cands.all fun k =>
              let d := fun (f : Option FontDecode.Font) => f.map fun f => (f.encoding, f.toUnicode.isSome, diffsOut f.differences)
              d (m1 k) == d (m2 k) && d (m1 k) == d (m3 k)
            if !same then "order-dependent" else
            let ls := cands.filterMap fun k => (m1 k).map (fontLine k)
            if ls.isEmpty then "-" else ",".intercalate ls)
       | _ => "bad-op")
    | _, _ => "bad-op"
  | _, _ => "bad-op"

end Tabula.C07H
