import TabulaModel.Util
namespace Tabula.C07H

def handle (_op : String) (_args : List String) : String := "bad-op"

end Tabula.C07H
