import TabulaModel.Util
import TabulaModel.Model.Layout
/-!
Line protocol of C09 (see harness/c09/c09.go).

* number: `n` or `n/d`; fragment: `id,x,y,w,h,fs,hextext`; fragment list: fragments joined by
  `|` (`-` = empty); group list: fragment lists joined by `;` (`-` = no group, `~` = empty group);
  gaps: `l:r;l:r` (`-` = none); box: `x,y,w,h`; box list joined by `|` (`-` = empty).
* answers: id lists `3,1,2` (`-` = empty); partitions = id lists joined by `|` (`-` = no group,
  `~` = empty group); texts as hex.

Ops: `c09.dedupe F`, `c09.bands F`, `c09.lines tol F`, `c09.blines minw G`, `c09.linetext F`,
`c09.sep gaps F`, `c09.create gaps F`, `c09.validate G`, `c09.cols gaps F`, `c09.seg n bits`,
`c09.bgroup G`, `c09.bmerge G/…` , `c09.blocks G`, `c09.etree H L P`, `c09.asm F`,
`c09.preserve F`, `c09.bycol S`, `c09.joinpara S`.
-/
namespace Tabula.C09H
open Tabula Tabula.Layout

def toStr (b : Bytes) : Str := b.map (·.toNat)
def ofStr (s : Str) : Bytes := s.map UInt8.ofNat
def hexS (s : Str) : String := hex (ofStr s)
def unhexS (s : String) : Option Str := (unhex s).map toStr

def parseRat (s : String) : Option Rat :=
  match s.splitOn "/" with
  | [n] => n.toInt?.map fun i => (i : Rat)
  | [n, d] => do
    let n ← n.toInt?
    let d ← d.toNat?
    if d = 0 then none else pure ((n : Rat) / (d : Rat))
  | _ => none

def parseFrag (s : String) : Option Frag :=
  match s.splitOn "," with
  | [i, x, y, w, h, fs, t] => do
    pure { id := ← i.toNat?, x := ← parseRat x, y := ← parseRat y, w := ← parseRat w,
           h := ← parseRat h, fs := ← parseRat fs, text := ← unhexS t }
  | _ => none

def parseFrags (s : String) : Option (List Frag) :=
  if s == "-" then some [] else (s.splitOn "|").mapM parseFrag

def parseGroups (s : String) : Option (List (List Frag)) :=
  if s == "-" then some []
  else (s.splitOn ";").mapM fun g => if g == "~" then some [] else parseFrags g

def parseGaps (s : String) : Option (List Gap) :=
  if s == "-" then some []
  else (s.splitOn ";").mapM fun g =>
    match g.splitOn ":" with
    | [l, r] => do pure { left := ← parseRat l, right := ← parseRat r }
    | _ => none

def parseBox (s : String) : Option Box :=
  match s.splitOn "," with
  | [x, y, w, h] => do pure { x := ← parseRat x, y := ← parseRat y, w := ← parseRat w, h := ← parseRat h }
  | _ => none

def parseBoxes (s : String) : Option (List Box) :=
  if s == "-" then some [] else (s.splitOn "|").mapM parseBox

def idList (ids : List Nat) : String :=
  if ids.isEmpty then "-" else ",".intercalate (ids.map toString)

def sortNat (l : List Nat) : List Nat := l.mergeSort (fun a b => a ≤ b)

def groupStr (sorted : Bool) (g : List Frag) : String :=
  if g.isEmpty then "~" else
  let ids := g.map (·.id)
  ",".intercalate ((if sorted then sortNat ids else ids).map toString)

def partStr (sorted : Bool) (gs : List (List Frag)) : String :=
  if gs.isEmpty then "-" else "|".intercalate (gs.map (groupStr sorted))

def minCW : Rat := 50
def spanThr : Rat := 7 / 20

def neverPreserve (_ : List Frag) : Bool := false

def blocksStr (bs : List Block) : String :=
  let gs := bs.map fun b => sortNat (b.frags.map (·.id))
  let ls := bs.map fun b => sortNat (b.lines.flatten.map (·.id))
  if gs != ls then "model-inconsistent"
  else
    let gs := gs.mergeSort (fun a b => a.head?.getD 0 ≤ b.head?.getD 0)
    if gs.isEmpty then "-" else "|".intercalate (gs.map idList)

def parseTexts (s : String) : Option (List (List Str)) :=
  if s == "-" then some []
  else (s.splitOn ";").mapM fun g =>
    if g == "~" then some [] else (g.splitOn "|").mapM unhexS

/-- `hextext:code` lines; code 1 = "\n", 2 = "\n\n" before the line -/
def parseSection (s : String) : Option (List (Str × Nat)) :=
  if s == "~" then some []
  else (s.splitOn "|").mapM fun l =>
    match l.splitOn ":" with
    | [t, c] => do pure (← unhexS t, ← c.toNat?)
    | _ => none

def handle (op : String) (args : List String) : String :=
  match op, args with
  | "c09.dedupe", [f] => match parseFrags f with
    | some fs => idList ((dedupe fs).map (·.id)) | none => "bad-op"
  | "c09.bands", [f] => match parseFrags f with
    | some fs => partStr false (bands fs) | none => "bad-op"
  | "c09.lines", [t, f] => match parseRat t, parseFrags f with
    | some tol, some fs => partStr true (groupIntoLines tol neverPreserve fs) | _, _ => "bad-op"
  | "c09.blines", [m, g] => match parseRat m, parseGroups g with
    | some minW, some gs =>
      idList ((gs.zipIdx.filter fun gi => keepLine minW gi.1).map (·.2)) | _, _ => "bad-op"
  | "c09.linetext", [f] => match parseFrags f with
    | some fs => hexS (lineText fs) | none => "bad-op"
  | "c09.sep", [g, f] => match parseGaps g, parseFrags f with
    | some gaps, some fs =>
      let r := if gaps.isEmpty then (fs, []) else separate (isSpanGo gaps spanThr) keepSpanGo fs
      s!"R={groupStr true r.1} S={groupStr true r.2}"
    | _, _ => "bad-op"
  | "c09.create", [g, f] => match parseGaps g, parseFrags f with
    | some gaps, some fs => partStr false (createColumns gaps fs) | _, _ => "bad-op"
  | "c09.validate", [g] => match parseGroups g with
    | some cols => partStr false (validateColumns minCW cols) | none => "bad-op"
  | "c09.cols", [g, f] => match parseGaps g, parseFrags f with
    | some gaps, some fs =>
      let c := detectColumns gaps minCW (isSpanGo gaps spanThr) keepSpanGo fs
      s!"C={partStr true c.columns} S={groupStr true c.spanning}"
    | _, _ => "bad-op"
  | "c09.seg", [n, bits] => match n.toNat? with
    | some n =>
      let bs := bits.toList.map (· == '1')
      let idx := (List.range n).zip (bs ++ List.replicate n false)
      let segs := segment (fun _ (a : Nat × Bool) _ => a.2) idx []
      if segs.isEmpty then "-" else "|".intercalate (segs.map fun s => idList (s.map (·.1)))
    | none => "bad-op"
  | "c09.bgroup", [g] => match parseGroups g with
    | some ls =>
      let bs := groupBlocks blockBreakGo ls
      if bs.isEmpty then "-" else "|".intercalate (bs.map fun b => groupStr true b.frags)
    | none => "bad-op"
  | "c09.blocks", [g] => match parseGroups g with
    | some ls => blocksStr (detectBlocks blockBreakGo blocksOverlapGo 10 5 ls)
    | none => "bad-op"
  | "c09.etree", [h, l, p] => match parseBoxes h, parseBoxes l, parseBoxes p with
    | some hs, some ls, some ps =>
      let mk := fun (b : Box) => ({ box := b, ids := [] } : Elem)
      idList ((ps.zipIdx.filter fun pi => consumed bboxOverlaps (hs.map mk) (ls.map mk) (mk pi.1)).map (·.2))
    | _, _, _ => "bad-op"
  | "c09.asm", [f] => match parseFrags f with
    | some fs => hexS (assembleText fs) | none => "bad-op"
  | "c09.preserve", [f] => match parseFrags f with
    | some fs => hexS (nonspace (preserveLayout (fun _ _ => (1, 1)) fs)) | none => "bad-op"
  | "c09.bycol", [s] =>
    match (if s == "-" then some [] else (s.splitOn ";").mapM parseSection) with
    | some secs =>
      let sep := fun (si li : Nat) => match (secs.getD si []).getD li ([], 1) with
        | (_, 2) => [10, 10]
        | _ => [10]
      hexS (byColumnText sep (secs.map fun s => s.map (·.1)))
    | none => "bad-op"
  | "c09.joinpara", [s] => match parseTexts s with
    | some ps => hexS (joinParagraphsText ps) | none => "bad-op"
  | _, _ => "bad-op"

end Tabula.C09H
