import TabulaModel.Util
namespace Tabula.C09H

def handle (_op : String) (_args : List String) : String := "bad-op"

end Tabula.C09H
