import TabulaModel.Util
import TabulaModel.Model.Layout
import TabulaModel.Model.LayoutOrder
import TabulaModel.Model.LayoutText
import TabulaModel.Model.LayoutApi
import TabulaModel.Model.LayoutGaps
import TabulaModel.Model.LayoutElem
/-!
Line protocol of C09 (see harness/c09/c09.go).

* number: `n` or `n/d`; fragment: `id,x,y,w,h,fs,hextext`; fragment list: fragments joined by
  `|` (`-` = empty); group list: fragment lists joined by `;` (`-` = no group, `~` = empty group);
  gaps: `l:r;l:r` (`-` = none); box: `x,y,w,h`; box list joined by `|` (`-` = empty).
* answers: id lists `3,1,2` (`-` = empty); partitions = id lists joined by `|` (`-` = no group,
  `~` = empty group); texts as hex.

Ops: `c09.dedupe F`, `c09.bands F`, `c09.lines tol F`, `c09.blines minw G`, `c09.linetext F`,
`c09.sep gaps F`, `c09.create gaps F`, `c09.validate G`, `c09.cols gaps F`, `c09.seg n bits`,
`c09.bgroup G`, `c09.bmerge G/…` , `c09.blocks G`, `c09.etree H L P` (fragment ids of the headings,
lists and paragraphs, `a.b|c.d`: the paragraphs not emitted as they are), `c09.asm F`,
`c09.preserve F`, `c09.bycol S`, `c09.joinpara S`.

Second layer (Model/LayoutOrder.lean): `c09.stream F` (shouldPreserveStreamOrder), `c09.lineso tol F`
(lines with the exact order inside each line), `c09.ro rtl tols COLS SPAN` (sections, their
fragments and lines, in reading order; `tols` = `firstid/len:tol,…`), `c09.ropara counts bits`
(GetParagraphs as a segmentation per section), `c09.playout P_P_…` (ParagraphLayout.GetText; a
paragraph is a group list), `c09.bycolx rtl tols COLS SPAN` (extractByColumn as a function of the
column layout), `c09.jpx rtl tols COLS SPAN tolAll bits` (extractWithParagraphs likewise; bits =
paragraph starts over the lines of the reading order).

Third layer (Model/LayoutText.lean): `c09.lltext tol F` (LineDetector.Detect(F).GetText()),
`c09.rotext rtl tols COLS SPAN` (ReadingOrderResult.GetText), `c09.cltext COLS SPAN`
(ColumnLayout.GetText), `c09.clfrags COLS SPAN` (GetFragmentsInReadingOrder), `c09.bltext B_B_…` (BlockLayout.GetText; a block is the group list of its
lines), `c09.blinesx F` (BlockDetector.groupIntoLines where the sorts have one possible result),
`c09.tgroup F` (text.groupFragments), `c09.gettext KR SP F` (text.Extractor.GetText; KR =
`firstid/len:keep:rtl;…` per line, SP = `p.f,…` the pairs that get a blank).

Fourth layer (Model/LayoutApi.lean): `c09.charlevel F`, `c09.multicol wz n ncols`,
`c09.pagetext pl jp bc cl mc DPL DJP DBC DASM` (the dispatch of Text() on 8-byte digests of the
four candidate texts), `c09.analyze rtl gaps tols tolAll bits F`
((*Analyzer).Analyze: columns, reading order, lines, paragraphs), `c09.doctext T;T;…` (page
texts joined), `c09.doccat name P;P;…` (per-page result lists appended; P = hex texts joined by `|`,
`~` = none).

Resource bounds (C02 repairs daef69b, 988a551, 541d4a6): `c09.preservex cw lh0 F`
(extractPreserveLayout byte for byte, padding included: `preserveLayoutGo`; cw = charWidth, lh0 =
charWidth*1.2 as exact rationals of the float64 values), `c09.gaps W F` (findVerticalGaps with the
default configuration as a closed function of the page width and the fragments: `l:r;l:r`, `-` =
none), `c09.gapsold W F` (the same with the histogram loop as it was before 541d4a6).
-/
namespace Tabula.C09H
open Tabula Tabula.Layout

def toStr (b : Bytes) : Str := b.map (·.toNat)
def ofStr (s : Str) : Bytes := s.map UInt8.ofNat
def hexS (s : Str) : String := hex (ofStr s)
def unhexS (s : String) : Option Str := (unhex s).map toStr

def parseRat (s : String) : Option Rat :=
  match s.splitOn "/" with
  | [n] => n.toInt?.map fun i => (i : Rat)
  | [n, d] => do
    let n ← n.toInt?
    let d ← d.toNat?
    if d = 0 then none else pure ((n : Rat) / (d : Rat))
  | _ => none

def parseFrag (s : String) : Option Frag :=
  match s.splitOn "," with
  | [i, x, y, w, h, fs, t] => do
    pure { id := ← i.toNat?, x := ← parseRat x, y := ← parseRat y, w := ← parseRat w,
           h := ← parseRat h, fs := ← parseRat fs, text := ← unhexS t }
  | _ => none

def parseFrags (s : String) : Option (List Frag) :=
  if s == "-" then some [] else (s.splitOn "|").mapM parseFrag

def parseGroups (s : String) : Option (List (List Frag)) :=
  if s == "-" then some []
  else (s.splitOn ";").mapM fun g => if g == "~" then some [] else parseFrags g

def parseGaps (s : String) : Option (List Gap) :=
  if s == "-" then some []
  else (s.splitOn ";").mapM fun g =>
    match g.splitOn ":" with
    | [l, r] => do pure { left := ← parseRat l, right := ← parseRat r }
    | _ => none

def parseBox (s : String) : Option Box :=
  match s.splitOn "," with
  | [x, y, w, h] => do pure { x := ← parseRat x, y := ← parseRat y, w := ← parseRat w, h := ← parseRat h }
  | _ => none

def parseBoxes (s : String) : Option (List Box) :=
  if s == "-" then some [] else (s.splitOn "|").mapM parseBox

def idList (ids : List Nat) : String :=
  if ids.isEmpty then "-" else ",".intercalate (ids.map toString)

def sortNat (l : List Nat) : List Nat := l.mergeSort (fun a b => a ≤ b)

def groupStr (sorted : Bool) (g : List Frag) : String :=
  if g.isEmpty then "~" else
  let ids := g.map (·.id)
  ",".intercalate ((if sorted then sortNat ids else ids).map toString)

def partStr (sorted : Bool) (gs : List (List Frag)) : String :=
  if gs.isEmpty then "-" else "|".intercalate (gs.map (groupStr sorted))

def minCW : Rat := 50
def spanThr : Rat := 7 / 20

def neverPreserve (_ : List Frag) : Bool := false

def blocksStr (bs : List Block) : String :=
  let gs := bs.map fun b => sortNat (b.frags.map (·.id))
  let ls := bs.map fun b => sortNat (b.lines.flatten.map (·.id))
  if gs != ls then "model-inconsistent"
  else
    let gs := gs.mergeSort (fun a b => a.head?.getD 0 ≤ b.head?.getD 0)
    if gs.isEmpty then "-" else "|".intercalate (gs.map idList)

def parseTexts (s : String) : Option (List (List Str)) :=
  if s == "-" then some []
  else (s.splitOn ";").mapM fun g =>
    if g == "~" then some [] else (g.splitOn "|").mapM unhexS

/-- `hextext:code` lines; code 1 = "\n", 2 = "\n\n" before the line -/
def parseSection (s : String) : Option (List (Str × Nat)) :=
  if s == "~" then some []
  else (s.splitOn "|").mapM fun l =>
    match l.splitOn ":" with
    | [t, c] => do pure (← unhexS t, ← c.toNat?)
    | _ => none

/-- `firstid/len:tol,…` -/
def parseTols (s : String) : Option (List ((Nat × Nat) × Rat)) :=
  if s == "-" then some []
  else (s.splitOn ",").mapM fun e =>
    match e.splitOn ":" with
    | [k, t] =>
      match k.splitOn "/" with
      | [i, n] => do pure ((← i.toNat?, ← n.toNat?), ← parseRat t)
      | _ => none
    | _ => none

def fragsKey (l : List Frag) : Nat × Nat := ((l.head?.map (·.id)).getD 0, l.length)

def tolTable (t : List ((Nat × Nat) × Rat)) (d : Rat) (frs : List Frag) : Rat :=
  (t.lookup (fragsKey frs)).getD d

def secStr (s : Sec) : String :=
  (if s.spanning then "S" else "C") ++ "[" ++ groupStr true s.frags ++ "]:" ++ partStr true s.lines

def minLW : Rat := 5

/-- the reading order of a column layout given on the op line -/
def roOf (rtl : String) (tols cols span : String) (d : Rat) : Option (List Frag × ReadingOrder) := do
  let t ← parseTols tols
  let c ← parseGroups cols
  let sp ← parseFrags span
  let cl : ColumnLayout := ⟨c, sp⟩
  pure (c.flatten ++ sp, readingOrderOf (tolTable t d) minLW preserveGo (rtl == "1") cl)

/-- break decisions given as start bits over a list of lines -/
def bitsBrk (lines : List (List Frag)) (bits : String) : List (List Frag) → List Frag → List (List Frag) → Bool :=
  let tbl := (lines.map fragsKey).zip (bits.toList.map (· == '1'))
  fun _ a _ => (tbl.lookup (fragsKey a)).getD false

def handle2 (op : String) (args : List String) : String :=
  match op, args with
  | "c09.stream", [f] => match parseFrags f with
    | some fs => if preserveGo fs then "1" else "0" | none => "bad-op"
  | "c09.lineso", [t, f] => match parseRat t, parseFrags f with
    | some tol, some fs => partStr false (groupIntoLines tol preserveGo fs) | _, _ => "bad-op"
  | "c09.ro", [rtl, tols, cols, span] => match roOf rtl tols cols span 0 with
    | some (_, ro) => if ro.sections.isEmpty then "-" else ";".intercalate (ro.sections.map secStr)
    | none => "bad-op"
  | "c09.ropara", [counts, bits] =>
    match (if counts == "-" then some [] else (counts.splitOn ",").mapM (·.toNat?)) with
    | some ns =>
      let mkLine := fun (i : Nat) => [({ id := i, x := 0, y := 0, w := 0, h := 0, fs := 0, text := [] } : Frag)]
      let step := fun (acc : Nat × List Sec) (n : Nat) =>
        (acc.1 + n, acc.2 ++ [({ spanning := false, frags := [], lines := (List.range n).map fun k => mkLine (acc.1 + k) } : Sec)])
      let ss := (ns.foldl step (0, [])).2
      let ls := ss.flatMap (·.lines)
      let ro : ReadingOrder := ⟨ss, [], ls, 0⟩
      let ps := roParagraphs (fun _ => bitsBrk ls bits) ro
      if ps.isEmpty then "-" else "|".intercalate (ps.map fun p => idList (p.map fun l => (l.head?.map (·.id)).getD 0))
    | none => "bad-op"
  | "c09.playout", [p] => match (p.splitOn "_").mapM parseGroups with
    | some ps => hexS (paragraphLayoutText ps) | none => "bad-op"
  | "c09.bycolx", [rtl, tols, cols, span] => match roOf rtl tols cols span 0 with
    | some (fs, ro) => hexS (byColumnOf fs ro) | none => "bad-op"
  | "c09.jpx", [rtl, tols, cols, span, tolAll, bits] => match parseRat tolAll with
    | some d => match roOf rtl tols cols span d with
      | some (fs, ro) =>
        hexS (withParagraphsOf (fun lines => bitsBrk lines bits) (tolTable ((parseTols tols).getD []) d) minLW preserveGo fs ro)
      | none => "bad-op"
    | none => "bad-op"
  | _, _ => "bad-op"

def parseKR (s : String) : Option (List ((Nat × Nat) × (Bool × Bool))) :=
  if s == "-" then some []
  else (s.splitOn ";").mapM fun e =>
    match e.splitOn ":" with
    | [k, a, b] =>
      match k.splitOn "/" with
      | [i, n] => do pure ((← i.toNat?, ← n.toNat?), (a == "1", b == "1"))
      | _ => none
    | _ => none

def parsePairs (s : String) : Option (List (Nat × Nat)) :=
  if s == "-" then some []
  else (s.splitOn ",").mapM fun e =>
    match e.splitOn "." with
    | [a, b] => do pure (← a.toNat?, ← b.toNat?)
    | _ => none

def handle3 (op : String) (args : List String) : String :=
  match op, args with
  | "c09.lltext", [t, f] => match parseRat t, parseFrags f with
    | some tol, some fs => hexS (lineLayoutText (detectLines tol minLW preserveGo fs)) | _, _ => "bad-op"
  | "c09.rotext", [rtl, tols, cols, span] => match roOf rtl tols cols span 0 with
    | some (_, ro) => hexS (roText ro) | none => "bad-op"
  | "c09.cltext", [cols, span] => match parseGroups cols, parseFrags span with
    | some c, some sp => hexS (columnLayoutText preserveGo ⟨c, sp⟩) | _, _ => "bad-op"
  | "c09.clfrags", [cols, span] => match parseGroups cols, parseFrags span with
    | some c, some sp => idList ((columnLayoutFragments ⟨c, sp⟩).map (·.id)) | _, _ => "bad-op"
  | "c09.bltext", [b] => match (b.splitOn "_").mapM parseGroups with
    | some bs => hexS (blockLayoutText (bs.map mkBlock)) | none => "bad-op"
  | "c09.blinesx", [f] => match parseFrags f with
    | some fs => partStr false (blockLinesOf (stableSort blLess) (stableSort fun a b => a.x < b.x) fs)
    | none => "bad-op"
  | "c09.tgroup", [f] => match parseFrags f with
    | some fs => partStr false (groupFragments fs) | none => "bad-op"
  | "c09.gettext", [kr, sp, f] => match parseKR kr, parsePairs sp, parseFrags f with
    | some t, some ps, some fs =>
      let keepS := fun (l : List Frag) => ((t.lookup (fragsKey l)).map (·.1)).getD true
      let rtlOf := fun (l : List Frag) => ((t.lookup (fragsKey l)).map (·.2)).getD false
      let spaceOf := fun (_ : List Frag) (p q : Frag) => ps.contains (p.id, q.id)
      hexS (textGetText keepS rtlOf spaceOf fs)
    | _, _, _ => "bad-op"
  | _, _ => "bad-op"

def hexOpt (s : String) : Option Str := if s == "-" then some [] else unhexS s

def handle4 (op : String) (args : List String) : String :=
  match op, args with
  | "c09.charlevel", [f] => match parseFrags f with
    | some fs => if isCharacterLevel fs then "1" else "0" | none => "bad-op"
  | "c09.multicol", [wz, n, k] => match n.toNat?, k.toNat? with
    | some n, some k =>
      let dummy : Frag := { id := 0, x := 0, y := 0, w := 0, h := 0, fs := 0, text := [] }
      if detectMultiColumn (wz == "1") (List.replicate n dummy) k then "1" else "0"
    | _, _ => "bad-op"
  | "c09.pagetext", [pl, jp, bc, cl, mc, tpl, tjp, tbc, tasm] =>
    match hexOpt tpl, hexOpt tjp, hexOpt tbc, hexOpt tasm with
    | some a, some b, some c, some d =>
      hexS (textDispatch ⟨pl == "1", jp == "1", bc == "1"⟩ (cl == "1") (mc == "1") a b c d)
    | _, _, _, _ => "bad-op"
  | "c09.analyze", [rtl, g, tols, tolAll, bits, f] =>
    match parseGaps g, parseTols tols, parseRat tolAll, parseFrags f with
    | some gaps, some t, some d, some fs =>
      let minKey := fun (l : List Frag) => ((sortNat (l.map (·.id))).head?.getD 0, l.length)
      let tolOf := fun (l : List Frag) => (t.lookup (minKey l)).getD d
      let mkHz := fun (brkOf : List (List Frag) → List (List Frag) → List Frag → List (List Frag) → Bool) =>
        Heur.mk gaps minCW minLW (isSpanGo gaps spanThr) keepSpanGo tolOf preserveGo (rtl == "1") brkOf 1 1
      let hz0 := mkHz (fun _ _ _ _ => false)
      let roLines := (hz0.readingOrder fs).lines
      let tbl := (roLines.map minKey).zip (bits.toList.map (· == '1'))
      let hz := mkHz (fun _ _ a _ => (tbl.lookup (minKey a)).getD false)
      let bh := BlockHeur.mk id id id blockBreakGo blocksOverlapGo 10 5
      let a := analyze hz bh fs
      let secs := if a.readingOrder.sections.isEmpty then "-" else ";".intercalate (a.readingOrder.sections.map secStr)
      let paras := if a.paragraphs.isEmpty then "-"
        else "|".intercalate (a.paragraphs.map fun p => "+".intercalate (p.map (groupStr true)))
      s!"C={partStr true a.columns.columns} S={groupStr true a.columns.spanning} RO={secs} L={partStr true a.lines} P={paras}"
    | _, _, _, _ => "bad-op"
  | "c09.doctext", [ts] => match (ts.splitOn ";").mapM hexOpt with
    | some l => hexS (joinPages 0 [] l) | none => "bad-op"
  | "c09.doccat", [_, ps] =>
    match (ps.splitOn ";").mapM (fun p => if p == "~" then some [] else (p.splitOn "|").mapM hexOpt) with
    | some l =>
      let all := l.flatten
      if all.isEmpty then "-" else "|".intercalate (all.map hexS)
    | none => "bad-op"
  | _, _ => "bad-op"

def ratStr (r : Rat) : String := if r.den == 1 then toString r.num else s!"{r.num}/{r.den}"

def gapsOut (gs : List Gap) : String :=
  if gs.isEmpty then "-" else ";".intercalate (gs.map fun g => ratStr g.left ++ ":" ++ ratStr g.right)

/-- the ops of the resource bounds -/
def handle5 (op : String) (args : List String) : String :=
  match op, args with
  | "c09.preservex", [cw, lh0, f] => match parseRat cw, parseRat lh0, parseFrags f with
    | some cw, some lh0, some fs => hexS (preserveLayoutGo cw lh0 fs) | _, _, _ => "bad-op"
  | "c09.gaps", [w, f] => match parseRat w, parseFrags f with
    | some w, some fs => gapsOut (findVerticalGaps 20 6 w fs) | _, _ => "bad-op"
  | "c09.gapsold", [w, f] => match parseRat w, parseFrags f with
    | some w, some fs => gapsOut (findVerticalGapsOld 20 6 w fs) | _, _ => "bad-op"
  | _, _ => "bad-op"


/-- `ids@x,y,w,h@fs@isH@ty` (ids joined by `.`) -/
def parsePPar (s : String) : Option PPar :=
  match s.splitOn "@" with
  | [ids, b, fs, isH, ty] => do
    let ids ← (ids.splitOn ".").mapM (·.toNat?)
    pure { ids := ids, box := ← parseBox b, fs := ← parseRat fs, isH := isH == "1", ty := ← ty.toNat? }
  | _ => none

/-- `ids@x,y,w,h@x,y,w,h`: a reading-order paragraph with its box and the box of what remains of
it when a heading or list takes fragments out of it (an input; its own box when nothing or
everything remains) -/
def parseRoPar (s : String) : Option (Elem × Box) :=
  match s.splitOn "@" with
  | [ids, b, rb] => do
    let ids ← (ids.splitOn ".").mapM (·.toNat?)
    pure ({ box := ← parseBox b, ids := ids }, ← parseBox rb)
  | _ => none

/-- `a.b.c|d.e` (`-` = none): lists of fragment ids -/
def parseIdLists (s : String) : Option (List (List Nat)) :=
  if s == "-" then some [] else (s.splitOn "|").mapM fun g => (g.splitOn ".").mapM (·.toNat?)

/-- the indices of the paragraphs the repaired tree does not emit as they are -/
def changedPars : List Nat → List (List Nat) → Nat → List Nat
  | _, [], _ => []
  | shown, p :: r, k =>
    if (notShown shown p).1.length == p.length then changedPars (notShown shown p).2 r (k + 1)
    else k :: changedPars (notShown shown p).2 r (k + 1)

def elemStr (kind : String) (e : Elem) : String :=
  kind ++ ":" ++ ".".intercalate ((sortNat e.ids).map toString) ++ ":" ++
    ratStr e.box.x ++ "," ++ ratStr e.box.y ++ "," ++ ratStr e.box.w ++ "," ++ ratStr e.box.h

/-- the analysis elements: `c09.elems PAGEPARS ROPARS` (lists joined by `;`, `-` = none; a
reading-order paragraph is `ids@box@box-of-its-remainder`) -/
def handle6 (op : String) (args : List String) : String :=
  match op, args with
  | "c09.elems", [pp, rp] =>
    match (if pp == "-" then some [] else (pp.splitOn ";").mapM parsePPar),
          (if rp == "-" then some [] else (rp.splitOn ";").mapM parseRoPar) with
    | some ps, some rob =>
      let ro := rob.map (·.1)
      let rbox := fun (p : Elem) (_ : List Nat) => match rob.find? (fun e => e.1.ids == p.ids) with
        | some e => e.2
        | none => p.box
      let ls := listElems 2 2 ps
      let hs := shownHeadings (headingElems ps) ls
      let tree := pageElements rbox ps ro
      let kept := tree.drop (hs.length + ls.length)
      let strs := hs.map (elemStr "H") ++ ls.map (elemStr "L") ++ kept.map (elemStr "P")
      let sorted := strs.mergeSort (fun a b => !decide (b < a))
      if sorted.isEmpty then "-" else "|".intercalate sorted
    | _, _ => "bad-op"
  | _, _ => "bad-op"


def handle (op : String) (args : List String) : String :=
  match op, args with
  | "c09.dedupe", [f] => match parseFrags f with
    | some fs => idList ((dedupe fs).map (·.id)) | none => "bad-op"
  | "c09.bands", [f] => match parseFrags f with
    | some fs => partStr false (bands fs) | none => "bad-op"
  | "c09.lines", [t, f] => match parseRat t, parseFrags f with
    | some tol, some fs => partStr true (groupIntoLines tol neverPreserve fs) | _, _ => "bad-op"
  | "c09.blines", [m, g] => match parseRat m, parseGroups g with
    | some minW, some gs =>
      idList ((gs.zipIdx.filter fun gi => keepLine minW gi.1).map (·.2)) | _, _ => "bad-op"
  | "c09.linetext", [f] => match parseFrags f with
    | some fs => hexS (lineText fs) | none => "bad-op"
  | "c09.sep", [g, f] => match parseGaps g, parseFrags f with
    | some gaps, some fs =>
      let r := if gaps.isEmpty then (fs, []) else separate (isSpanGo gaps spanThr) keepSpanGo fs
      s!"R={groupStr true r.1} S={groupStr true r.2}"
    | _, _ => "bad-op"
  | "c09.create", [g, f] => match parseGaps g, parseFrags f with
    | some gaps, some fs => partStr false (createColumns gaps fs) | _, _ => "bad-op"
  | "c09.validate", [g] => match parseGroups g with
    | some cols => partStr false (validateColumns minCW cols) | none => "bad-op"
  | "c09.cols", [g, f] => match parseGaps g, parseFrags f with
    | some gaps, some fs =>
      let c := detectColumns gaps minCW (isSpanGo gaps spanThr) keepSpanGo fs
      s!"C={partStr true c.columns} S={groupStr true c.spanning}"
    | _, _ => "bad-op"
  | "c09.seg", [n, bits] => match n.toNat? with
    | some n =>
      let bs := bits.toList.map (· == '1')
      let idx := (List.range n).zip (bs ++ List.replicate n false)
      let segs := segment (fun _ (a : Nat × Bool) _ => a.2) idx []
      if segs.isEmpty then "-" else "|".intercalate (segs.map fun s => idList (s.map (·.1)))
    | none => "bad-op"
  | "c09.bgroup", [g] => match parseGroups g with
    | some ls =>
      let bs := groupBlocks blockBreakGo ls
      if bs.isEmpty then "-" else "|".intercalate (bs.map fun b => groupStr true b.frags)
    | none => "bad-op"
  | "c09.blocks", [g] => match parseGroups g with
    | some ls => blocksStr (detectBlocks blockBreakGo blocksOverlapGo 10 5 ls)
    | none => "bad-op"
  | "c09.etree", [h, l, p] => match parseIdLists h, parseIdLists l, parseIdLists p with
    | some hs, some ls, some ps =>
      let mk := fun (ids : List Nat) => ({ box := ⟨0, 0, 0, 0⟩, ids := ids } : Elem)
      let hs' := shownHeadings (hs.map mk) (ls.map mk)
      idList (changedPars (ls.flatten ++ hs'.flatMap (·.ids)) ps 0)
    | _, _, _ => "bad-op"
  | "c09.asm", [f] => match parseFrags f with
    | some fs => hexS (assembleText fs) | none => "bad-op"
  | "c09.preserve", [f] => match parseFrags f with
    | some fs => hexS (nonspace (preserveLayout (fun _ _ => (1, 1)) fs)) | none => "bad-op"
  | "c09.bycol", [s] =>
    match (if s == "-" then some [] else (s.splitOn ";").mapM parseSection) with
    | some secs =>
      let sep := fun (si li : Nat) => match (secs.getD si []).getD li ([], 1) with
        | (_, 2) => [10, 10]
        | _ => [10]
      hexS (byColumnText sep (secs.map fun s => s.map (·.1)))
    | none => "bad-op"
  | "c09.joinpara", [s] => match parseTexts s with
    | some ps => hexS (joinParagraphsText ps) | none => "bad-op"
  | _, _ => match handle2 op args with
    | "bad-op" => match handle3 op args with
      | "bad-op" => match handle4 op args with
        | "bad-op" => match handle5 op args with
          | "bad-op" => handle6 op args
          | r => r
        | r => r
      | r => r
    | r => r

end Tabula.C09H
