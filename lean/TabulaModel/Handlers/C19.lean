import TabulaModel.Util
namespace Tabula.C19H

def handle (_op : String) (_args : List String) : String := "bad-op"

end Tabula.C19H
