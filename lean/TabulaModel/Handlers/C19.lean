import TabulaModel.Util
import TabulaModel.Model.Html
import TabulaModel.Model.HtmlSpec
import TabulaModel.Model.HtmlApi
import TabulaModel.Model.HtmlLost
/-
Line protocol of C19.

  c19.dom <mode> <tree>   →  E=<elements> X=<exclusion bits> T=<hex text> D=<document elements>
  c19.match <hex>         →  1 | 0     (class/id pattern of Standard mode)
  c19.doc <int> <doctree> →  T=<hex text> M=<hex markdown> D=<document elements>
                             (tree from the DOCUMENT node; raw mode value, any int)
  c19.seq <doctree> <calls> → one digest per call, calls on ONE reader:
                             t<int> m<int> d<int> (…WithOptions) | T M D (Text, Markdown, Document)
  c19.ext <doctree>       →  T= M= D=   (tabula.Extractor: Text, ToMarkdown, Document)
  c19.epub <t|m> <int> <doctree>…  →  hex of epubdoc TextWithOptions / MarkdownWithOptions
  c19.src <int> <doctree> →  hex of squeeze (srcOf m doc): the specification's source text
  c19.want <int> <doctree> → hex of squeeze (wantOf m doc) — the text the property asks for — or "wrapped" when
                             some p with a block-level child has a child with text that is neither block-level nor
                             inline content (noWrapped fails)
  c19.lost <int> <doctree> → R=<hex squeeze srcOf> L=<hex squeeze lostOf> sub=<squeeze src is a subsequence of
                             squeeze want> len=<|want| = |src| + |lost|>   (the harness supplies the real returned
                             text and the lost text it collects itself)
  c19.blk <int> <doctree> →  the specification `blocksOf` (tables whole, item kinds) of the clamped mode
  c19.deeper <limit> <doctree> → 1 | 0    treeDeeperThan(doc, limit), any limit ≥ 0 (hook VerifTreeDeeperThan)
  c19.limit               →  maxTreeDepth (hook VerifMaxTreeDepth)

c19.doc, c19.seq and c19.ext answer `refused` when OpenReader returns its depth error (tree deeper than
maxTreeDepth); c19.epub leaves such a chapter out.

tree  ::= 'T' hex '.'  |  'E' hex { '@' hex '=' hex } '(' tree* ')'  |  'O' '(' tree* ')'
hex is the UTF-8 bytes of the string, two lower-case digits per byte (empty allowed).
-/
namespace Tabula.C19H
open Tabula Tabula.Html

/-- UTF-8 decoding as Go ranges over a string: an invalid byte becomes one unit
(carried as 0x110000 + byte so that it is written back unchanged). -/
partial def decodeUtf8 : List Nat → List Nat → List Nat
  | [], acc => acc.reverse
  | b :: rest, acc =>
    let bad := fun (_ : Unit) => decodeUtf8 rest ((0x110000 + b) :: acc)
    let cont (x : Nat) : Bool := 0x80 ≤ x && x ≤ 0xBF
    if b < 0x80 then decodeUtf8 rest (b :: acc)
    else if 0xC2 ≤ b && b ≤ 0xDF then
      match rest with
      | c1 :: r => if cont c1 then decodeUtf8 r (((b - 0xC0) * 64 + (c1 - 0x80)) :: acc) else bad ()
      | _ => bad ()
    else if 0xE0 ≤ b && b ≤ 0xEF then
      match rest with
      | c1 :: c2 :: r =>
        let lo := if b == 0xE0 then 0xA0 else 0x80
        let hi := if b == 0xED then 0x9F else 0xBF
        if lo ≤ c1 && c1 ≤ hi && cont c2 then
          decodeUtf8 r (((b - 0xE0) * 4096 + (c1 - 0x80) * 64 + (c2 - 0x80)) :: acc)
        else bad ()
      | _ => bad ()
    else if 0xF0 ≤ b && b ≤ 0xF4 then
      match rest with
      | c1 :: c2 :: c3 :: r =>
        let lo := if b == 0xF0 then 0x90 else 0x80
        let hi := if b == 0xF4 then 0x8F else 0xBF
        if lo ≤ c1 && c1 ≤ hi && cont c2 && cont c3 then
          decodeUtf8 r (((b - 0xF0) * 262144 + (c1 - 0x80) * 4096 + (c2 - 0x80) * 64 + (c3 - 0x80)) :: acc)
        else bad ()
      | _ => bad ()
    else bad ()

def encodeCp (c : Nat) : List Nat :=
  if c < 0x80 then [c]
  else if c < 0x800 then [0xC0 + c / 64, 0x80 + c % 64]
  else if c < 0x10000 then [0xE0 + c / 4096, 0x80 + (c / 64) % 64, 0x80 + c % 64]
  else if c < 0x110000 then [0xF0 + c / 262144, 0x80 + (c / 4096) % 64, 0x80 + (c / 64) % 64, 0x80 + c % 64]
  else [c - 0x110000]

def hexS (s : Str) : String := hex ((s.flatMap encodeCp).map UInt8.ofNat)

def isHexChar (c : Char) : Bool := (hexDigitVal c).isSome && !('A' ≤ c ∧ c ≤ 'F')

/-- read hex digits up to the next delimiter -/
def takeHex (cs : List Char) : Option (Str × List Char) :=
  let h := cs.takeWhile isHexChar
  let rest := cs.dropWhile isHexChar
  match unhexAux h [] with
  | some bs => some (decodeUtf8 (bs.map (·.toNat)) [], rest)
  | none => none

partial def parseAttrs (cs : List Char) (acc : List (Str × Str)) : Option (List (Str × Str) × List Char) :=
  match cs with
  | '@' :: r =>
    match takeHex r with
    | some (k, '=' :: r2) =>
      match takeHex r2 with
      | some (v, r3) => parseAttrs r3 ((k, v) :: acc)
      | none => none
    | _ => none
  | _ => some (acc.reverse, cs)

mutual
partial def parseNode (cs : List Char) : Option (Dom × List Char) :=
  match cs with
  | 'T' :: r =>
    match takeHex r with
    | some (s, '.' :: r2) => some (.text s, r2)
    | _ => none
  | 'E' :: r =>
    match takeHex r with
    | some (tag, r2) =>
      match parseAttrs r2 [] with
      | some (attrs, '(' :: r3) =>
        match parseNodes r3 [] with
        | some (kids, r4) => some (.elem tag attrs kids, r4)
        | none => none
      | _ => none
    | none => none
  | 'O' :: '(' :: r =>
    match parseNodes r [] with
    | some (kids, r2) => some (.other kids, r2)
    | none => none
  | _ => none
partial def parseNodes (cs : List Char) (acc : List Dom) : Option (List Dom × List Char) :=
  match cs with
  | ')' :: r => some (acc.reverse, r)
  | [] => none
  | _ =>
    match parseNode cs with
    | some (n, r) => parseNodes r (n :: acc)
    | none => none
end

def parseTree (s : String) : Option Dom :=
  match parseNode s.toList with
  | some (n, []) => some n
  | _ => none

def parseMode : String → Option Mode
  | "none" => some .none | "explicit" => some .explicit
  | "standard" => some .standard | "aggressive" => some .aggressive
  | _ => none

def dumpCell (c : Cell) : String :=
  s!"{if c.isHeader then "h" else "d"}{c.rowSpan}x{c.colSpan}.{hexS c.text}"

def dumpItems (items : List Item) : String :=
  ",".intercalate (items.map fun i => s!"{i.level}.{hexS i.text}")

def dumpRows (rows : List (List Cell)) : String :=
  "/".intercalate (rows.map fun r => ",".intercalate (r.map dumpCell))

def dumpEl : Element → String
  | .heading l t => s!"H{l}:{hexS t}"
  | .para t => s!"P:{hexS t}"
  | .code t => s!"C:{hexS t}"
  | .quote t => s!"Q:{hexS t}"
  | .list o items => s!"L{if o then "o" else "u"}:{dumpItems items}"
  | .table h rows => s!"T{if h then "h" else "n"}:{dumpRows rows}"

def joinOrDash (xs : List String) : String := if xs.isEmpty then "-" else ";".intercalate xs

/-- the element list of `DocumentWithOptions`: code and block quotes become paragraphs,
tables become their grid (`tableGrid`, Model/HtmlApi.lean): cells at the positions where they
stand, empty cells at the covered and open positions -/
def dumpDocEl : Element → String
  | .heading l t => s!"H{l}:{hexS t}"
  | .para t => s!"P:{hexS t}"
  | .code t => s!"P:{hexS t}"
  | .quote t => s!"P:{hexS t}"
  | .list o items => s!"L{if o then "o" else "u"}:{dumpItems items}"
  | .table _ rows => s!"T:{dumpRows (tableGrid rows)}"

mutual
partial def xbits (m : Mode) (w : Bool) (pos : Pos) : Dom → String
  | .text _ => ""
  | .other kids => xbitsL m w (pos.kid w []) kids
  | .elem tag attrs kids =>
    (if excluded m pos (.elem tag attrs kids) then "1" else "0") ++ xbitsL m w (pos.kid w tag) kids
partial def xbitsL (m : Mode) (w : Bool) (kp : Pos) : List Dom → String
  | [] => ""
  | k :: ks => xbits m w kp k ++ xbitsL m w kp ks
end


/-! ### the public entry points (Model/HtmlApi.lean) -/

def dumpDocElM : DocEl → String
  | .heading l t => s!"H{l}:{hexS t}"
  | .para t => s!"P:{hexS t}"
  | .list o items => s!"L{if o then "o" else "u"}:{",".intercalate (items.map fun i => s!"{i.1}.{hexS i.2}")}"
  | .table rows => s!"T:{dumpRows rows}"

def dumpDocM (els : List DocEl) : String := joinOrDash (els.map dumpDocElM)

def utf8 (s : Str) : List UInt8 := (s.flatMap encodeCp).map UInt8.ofNat

/-- FNV-1a (64 bit) of the UTF-8 bytes: the digest of the c19.seq op -/
def fnv (bs : List UInt8) : UInt64 :=
  bs.foldl (fun h b => (h ^^^ b.toUInt64) * 1099511628211) 14695981039346656037

def digestStr (s : Str) : String :=
  let bs := utf8 s
  s!"{bs.length}.{(fnv bs).toNat}"

def digestOut : Out → String
  | .str s => "s" ++ digestStr s
  | .doc els =>
    let bs := (dumpDocM els).toUTF8.toList
    s!"d{bs.length}.{(fnv bs).toNat}"

def dumpBlock : Block → String
  | .heading l t => s!"H{l}:{hexS t}"
  | .para t => s!"P:{hexS t}"
  | .item l t o => s!"I{l}{if o then "o" else "u"}:{hexS t}"
  | .table h rows => s!"T{if h then "h" else "n"}:{dumpRows rows}"
  | .code t => s!"C:{hexS t}"
  | .quote t => s!"Q:{hexS t}"

def parseCall (s : String) : Option Call :=
  match s.toList with
  | ['T'] => some .text
  | ['M'] => some .md
  | ['D'] => some .doc
  | 't' :: r => (String.ofList r).toInt?.map .textOpts
  | 'm' :: r => (String.ofList r).toInt?.map .mdOpts
  | 'd' :: r => (String.ofList r).toInt?.map .docOpts
  | _ => none

def parseAll {α β} (f : α → Option β) : List α → Option (List β)
  | [] => some []
  | x :: xs => match f x, parseAll f xs with
    | some y, some ys => some (y :: ys)
    | _, _ => none

def handleApi (op : String) (args : List String) : String :=
  match op, args with
  | "c19.doc", [m, tree] =>
    match m.toInt?, parseTree tree with
    | some m, some doc =>
      match openText m doc, openMarkdown m doc, openDocument m doc with
      | some t, some md, some d => s!"T={hexS t} M={hexS md} D={dumpDocM d}"
      | none, none, none => "refused"
      | _, _, _ => "inconsistent"
    | _, _ => "bad-op"
  | "c19.seq", [tree, calls] =>
    match parseTree tree, parseAll parseCall (calls.splitOn ",") with
    | some doc, some cs =>
      match runCallsE doc cs with
      | some outs => " ".intercalate (outs.map digestOut)
      | none => "refused"
    | _, _ => "bad-op"
  | "c19.ext", [tree] =>
    match parseTree tree with
    | some doc =>
      match extractorTextE doc, extractorMarkdownE doc, extractorDocumentE doc with
      | some t, some md, some d => s!"T={hexS t} M={hexS md} D={dumpDocM d}"
      | none, none, none => "refused"
      | _, _, _ => "inconsistent"
    | none => "bad-op"
  | "c19.epub", kind :: m :: trees =>
    match m.toInt?, parseAll parseTree trees with
    | some m, some docs =>
      if kind == "t" then hexS (epubText m docs)
      else if kind == "m" then hexS (epubMarkdown m docs)
      else "bad-op"
    | _, _ => "bad-op"
  | "c19.deeper", [limit, tree] =>
    match limit.toNat?, parseTree tree with
    | some l, some doc => if treeDeeperThan doc l then "1" else "0"
    | _, _ => "bad-op"
  | "c19.limit", [] => toString maxTreeDepth
  | "c19.blk", [m, tree] =>
    match m.toInt?, parseTree tree with
    | some m, some doc =>
      joinOrDash ((blocksOf (if m = 0 then fun _ _ => false else excludedI m) (bodyOf doc)).map dumpBlock)
    | _, _ => "bad-op"
  | "c19.want", [m, tree] =>
    match m.toInt?, parseTree tree with
    | some m, some doc => if noWrapped (bodyOf doc) then hexS (squeeze (wantOf m doc)) else "wrapped"
    | _, _ => "bad-op"
  | "c19.lost", [m, tree] =>
    match m.toInt?, parseTree tree with
    | some m, some doc =>
      let wn := squeeze (wantOf m doc)
      let sr := squeeze (srcOf m doc)
      let ls := squeeze (lostOf m doc)
      s!"R={hexS sr} L={hexS ls} sub={isSubseq sr wn} len={wn.length == sr.length + ls.length}"
    | _, _ => "bad-op"
  | "c19.src", [m, tree] =>
    match m.toInt?, parseTree tree with
    | some m, some doc => hexS (squeeze (srcOf m doc))
    | _, _ => "bad-op"
  | _, _ => "bad-op"

def handle (op : String) (args : List String) : String :=
  match op, args with
  | "c19.dom", [mode, tree] =>
    match parseMode mode, parseTree tree with
    | some m, some body =>
      let els := extract m body
      let xb := xbits m (hasWrapper body) .root body
      s!"E={joinOrDash (els.map dumpEl)} X={if xb.isEmpty then "-" else xb} T={hexS (renderText els [])} D={joinOrDash (els.map dumpDocEl)}"
    | _, _ => "bad-op"
  | "c19.match", [h] =>
    match unhex h with
    | some bs =>
      let s := decodeUtf8 (bs.map (·.toNat)) []
      if excludedPattern vocabExcluded [(A.class, s)] then "1" else "0"
    | none => "bad-op"
  | _, _ => handleApi op args

end Tabula.C19H
