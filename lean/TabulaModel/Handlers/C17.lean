import TabulaModel.Util
import TabulaModel.Model.Sheet
namespace Tabula.C17H
open Tabula Tabula.A1 Tabula.Sheet

def toStr (b : Bytes) : Str := b.map (·.toNat)
def ofStr (s : Str) : Bytes := s.map UInt8.ofNat
def hexS (s : Str) : String := hex (ofStr s)
def unhexS (s : String) : Option Str := (unhex s).map toStr

def ctypeName : CType → String
  | .str => "string" | .num => "number" | .bool => "boolean"
  | .formula => "formula" | .err => "error" | .empty => "empty"

def parseCellXML (s : String) : Option CellXML :=
  match s.splitOn "." with
  | [r, t, v, f, i] => do
    let r ← unhexS r; let t ← unhexS t; let v ← unhexS v; let f ← unhexS f
    let i ← if i == "~" then some none else (unhexS i).map some
    pure ⟨r, t, v, f, i⟩
  | _ => none

def parseRow (s : String) : Option RowXML :=
  match s.splitOn ":" with
  | [r, cells] => do
    let r ← r.toInt?
    let cs ← if cells == "" then some [] else (cells.splitOn "|").mapM parseCellXML
    pure ⟨r, cs⟩
  | _ => none

def parseHexList (s : String) : Option (List Str) :=
  if s == "" then some [] else (s.splitOn ",").mapM unhexS

def dumpGrid (g : Grid) : String :=
  let ncols := match g with | [] => 0 | r :: _ => r.length
  let cells := (g.zipIdx.flatMap fun (row, ri) =>
    row.zipIdx.filterMap fun (c, ci) =>
      if c == ({} : Cell) then none else
      some s!"{ri},{ci},{ctypeName c.type},{hexS c.value},{c.merged},{c.root},{c.mergeRows},{c.mergeCols}")
  s!"{g.length}x{ncols} [{";".intercalate cells}] {hexS (sheetText g)}"

def handle (op : String) (args : List String) : String :=
  match op, args with
  | "c17.col2idx", [h] => match unhexS h with
    | some s => toString (columnToIndex s) | none => "bad-op"
  | "c17.idx2col", [n] => match n.toInt? with
    | some i => hexS (indexToColumn i) | none => "bad-op"
  | "c17.parseref", [h] => match unhexS h with
    | some s => (match parseCellRef s with
      | .ok (c, r) => s!"ok {c} {r}" | .error _ => "err")
    | none => "bad-op"
  | "c17.cellref", [c, r] => match c.toInt?, r.toInt? with
    | some c, some r => hexS (cellRef c r) | _, _ => "bad-op"
  | "c17.range", [h] => match unhexS h with
    | some s => (match parseRangeRef s with
      | .ok (a, b, c, d) => s!"ok {a} {b} {c} {d}" | .error _ => "err")
    | none => "bad-op"
  | "c17.sheet", [shared, rows, merges] =>
    match parseHexList (shared.drop 2).toString, (if rows == "r=" then some [] else ((rows.drop 2).toString.splitOn "/").mapM parseRow),
          parseHexList (merges.drop 2).toString with
    | some sh, some rs, some ms => dumpGrid (parseWorksheet sh rs ms)
    | _, _, _ => "bad-op"
  | _, _ => "bad-op"

end Tabula.C17H
