import TabulaModel.Util
import TabulaModel.Model.Sheet
import TabulaModel.Model.Workbook
namespace Tabula.C17H
open Tabula Tabula.A1 Tabula.Sheet Tabula.Wb

def toStr (b : Bytes) : Str := b.map (·.toNat)
def ofStr (s : Str) : Bytes := s.map UInt8.ofNat
def hexS (s : Str) : String := hex (ofStr s)
def unhexS (s : String) : Option Str := (unhex s).map toStr

def ctypeName : CType → String
  | .str => "string" | .num => "number" | .bool => "boolean"
  | .formula => "formula" | .err => "error" | .empty => "empty"

def parseCellXML (s : String) : Option CellXML :=
  match s.splitOn "." with
  | [r, t, v, f, i] => do
    let r ← unhexS r; let t ← unhexS t; let v ← unhexS v; let f ← unhexS f
    let i ← if i == "~" then some none else (unhexS i).map some
    pure ⟨r, t, v, f, i⟩
  | _ => none

def parseRow (s : String) : Option RowXML :=
  match s.splitOn ":" with
  | [r, cells] => do
    let r ← r.toInt?
    let cs ← if cells == "" then some [] else (cells.splitOn "|").mapM parseCellXML
    pure ⟨r, cs⟩
  | _ => none

def parseHexList (s : String) : Option (List Str) :=
  if s == "" then some [] else (s.splitOn ",").mapM unhexS

def dumpGrid (g : Grid) : String :=
  let ncols := match g with | [] => 0 | r :: _ => r.length
  let cells := (g.zipIdx.flatMap fun (row, ri) =>
    row.zipIdx.filterMap fun (c, ci) =>
      if c == ({} : Cell) then none else
      some s!"{ri},{ci},{ctypeName c.type},{hexS c.value},{c.merged},{c.root},{c.mergeRows},{c.mergeCols}")
  s!"{g.length}x{ncols} [{";".intercalate cells}] {hexS (sheetText g)}"


/-! ## the workbook-level ops (model: `Model/Workbook.lean`) -/

def stripKey (s : String) : String := ((s.splitOn "=").drop 1 |> "=".intercalate)

def parseSI (s : String) : Option SI :=
  match s.splitOn "~" with
  | t :: runs => do
    let t ← unhexS t
    let rs ← runs.mapM unhexS
    pure ⟨t, rs⟩
  | [] => none

def parseSIs (s : String) : Option (List SI) :=
  if s == "" then some [] else (s.splitOn ",").mapM parseSI

def parsePart (s : String) : Option (Option SheetXML) :=
  if s == "~" then some none else
  match s.splitOn "!" with
  | [n, rows, merges, mem] => do
    let n ← unhexS n
    let rs ← if rows == "" then some [] else (rows.splitOn "/").mapM parseRow
    let ms ← parseHexList merges
    let mem ← unhexS mem
    pure (some ⟨n, rs, ms, mem⟩)
  | _ => none

def parseParts (s : String) : Option (List (Option SheetXML)) :=
  if s == "" then some [] else (s.splitOn "@").mapM parsePart

def parseIntList (s : String) : Option (List Int) :=
  if s == "" then some [] else (s.splitOn ",").mapM (·.toInt?)

def parseBool (s : String) : Option Bool :=
  if s == "1" then some true else if s == "0" then some false else none

def parseOpts (s : String) : Option ExtractOptions :=
  match s.splitOn ";" with
  | [sel, hdr, d, xh, xf] => do
    let sel ← parseIntList sel
    let hdr ← parseBool hdr
    let d ← unhexS d
    let xh ← parseBool xh
    let xf ← parseBool xf
    pure { sheets := sel, includeHeaders := hdr, delimiter := d, excludeHeaders := xh, excludeFooters := xf }
  | _ => none

def parseMdOpts (s : String) : Option MdOptions :=
  match s.splitOn ";" with
  | [m, t, off, mx] => do
    let m ← parseBool m
    let t ← parseBool t
    let off ← off.toInt?
    let mx ← mx.toInt?
    pure { includeMetadata := m, includeTOC := t, headingLevelOffset := off, maxHeadingLevel := mx }
  | _ => none

def loadWb (si sh : String) : Option (Option Reader) := do
  let sis ← parseSIs (stripKey si)
  let parts ← parseParts (stripKey sh)
  pure (openWorkbook sis parts)

def dumpCell (c : Cell) : String :=
  s!"{ctypeName c.type},{hexS c.value},{c.merged},{c.root},{c.mergeRows},{c.mergeCols}"

def dumpCells (g : Grid) : String :=
  let ncols := match g with | [] => 0 | r :: _ => r.length
  let cells := (g.zipIdx.flatMap fun (row, ri) =>
    row.zipIdx.filterMap fun (c, ci) =>
      if c == ({} : Cell) then none else some s!"{ri},{ci},{dumpCell c}")
  s!"{g.length}x{ncols} [{";".intercalate cells}]"

def dumpBounds (b : Bounds) : String := s!"{b.minRow}.{b.maxRow}.{b.minCol}.{b.maxCol}"

def dumpOpen (r : Reader) : String :=
  s!"{r.sheetCount}|" ++ ";".intercalate (r.sheets.map fun s =>
    s!"{hexS s.name},{s.index},{s.rowCount},{s.colCount},{dumpBounds (findContentBounds s)}")

def dumpDoc (d : List DPage) : String :=
  ";".intercalate (d.map fun p =>
    match p.table with
    | none => s!"{p.number}:none"
    | some t =>
      let ncols := match t with | [] => 0 | r :: _ => r.length
      let cells := t.flatMap fun row => row.map fun c => s!"{hexS c.text}.{c.rowSpan}.{c.colSpan}.{c.isHeader}"
      s!"{p.number}:{t.length}x{ncols}:{",".intercalate cells}")

def dumpTables (ts : List PTable) : String :=
  ";".intercalate (ts.map fun t =>
    let hs := ",".intercalate (t.headers.map hexS)
    let rs := "/".intercalate (t.rows.map fun row => ",".intercalate (row.map hexS))
    s!"{hexS t.name}:{hs}:{rs}:{hexS t.toText}:{hexS t.toMarkdown}")

def dumpOptCell : Option Cell → String
  | none => "nil"
  | some c => dumpCell c

def dumpResult : Result → String
  | .str s => hexS s
  | .doc d => dumpDoc d
  | .tables t => dumpTables t
  | .cell c => dumpOptCell c
  | .names n => ",".intercalate (n.map hexS)
  | .idx none => "nil"
  | .idx (some i) => toString i
  | .unit => "closed"

def parseCall (s : String) : Option Call :=
  let body := (s.drop 1).toString
  match (s.take 1).toString with
  | "T" => (parseOpts body).map .text
  | "M" => (parseOpts body).map .markdown
  | "D" => some .document
  | "B" => some .tables
  | "N" => some .names
  | "Y" => (unhexS body).map .byName
  | "X" => some .close
  | "C" => match body.splitOn "," with
    | [k, r, c] => do pure (.cell (← k.toInt?) (← r.toInt?) (← c.toInt?))
    | _ => none
  | "R" => match body.splitOn "," with
    | [k, ref] => do pure (.cellByRef (← k.toInt?) (← unhexS ref))
    | _ => none
  | _ => none

def handleWb (op : String) (args : List String) : String :=
  match op, args with
  | "c17.sst", [si] => match parseSIs (stripKey si) with
    | some sis => ",".intercalate ((parseSharedStrings sis).map hexS)
    | none => "bad-op"
  | "c17.esc", [h] => match unhexS h with
    | some s => hexS (escapeMarkdown s) | none => "bad-op"
  | "c17.level", [off, mx, lvl] => match off.toInt?, mx.toInt?, lvl.toInt? with
    | some off, some mx, some lvl => toString (adjustHeadingLevel { headingLevelOffset := off, maxHeadingLevel := mx } lvl)
    | _, _, _ => "bad-op"
  | "c17.open", [si, sh] => match loadWb si sh with
    | some (some r) => dumpOpen r
    | some none => "err"
    | none => "bad-op"
  | "c17.grid", [si, sh, k] => match loadWb si sh, k.toInt? with
    | some (some r), some k => (match r.sheet k with
      | some s => dumpCells s.rows | none => "nil")
    | some none, some _ => "err"
    | _, _ => "bad-op"
  | "c17.text", [si, sh, o] => match loadWb si sh, parseOpts (stripKey o) with
    | some (some r), some o => hexS (textWithOptions r o)
    | some none, some _ => "err"
    | _, _ => "bad-op"
  | "c17.apitext", [si, sh, xh, xf] => match loadWb si sh, parseBool xh, parseBool xf with
    | some (some r), some xh, some xf => hexS (apiText r xh xf)
    | some none, some _, some _ => "err"
    | _, _, _ => "bad-op"
  | "c17.md", [si, sh, o, mo, f, t] =>
    match loadWb si sh, parseOpts (stripKey o), parseMdOpts (stripKey mo), unhexS (stripKey f), unhexS (stripKey t) with
    | some (some r), some o, some mo, some f, some t => hexS (markdownWithRAG r o mo f t)
    | some none, some _, some _, some _, some _ => "err"
    | _, _, _, _, _ => "bad-op"
  | "c17.apimd", [si, sh, xh, xf, mo, f, t] =>
    match loadWb si sh, parseBool xh, parseBool xf, parseMdOpts (stripKey mo), unhexS (stripKey f), unhexS (stripKey t) with
    | some (some r), some xh, some xf, some mo, some f, some t => hexS (apiMarkdown r xh xf mo f t)
    | some none, some _, some _, some _, some _, some _ => "err"
    | _, _, _, _, _, _ => "bad-op"
  | "c17.mdopt", [si, sh, o] => match loadWb si sh, parseOpts (stripKey o) with
    | some (some r), some o => hexS (markdownWithOptions r o)
    | some none, some _ => "err"
    | _, _ => "bad-op"
  | "c17.doc", [si, sh] => match loadWb si sh with
    | some (some r) => dumpDoc (apiDocument r)
    | some none => "err"
    | none => "bad-op"
  | "c17.tables", [si, sh] => match loadWb si sh with
    | some (some r) => dumpTables (tables r)
    | some none => "err"
    | none => "bad-op"
  | "c17.seq", [si, sh, calls] =>
    match loadWb si sh, (if calls == "" then some [] else (calls.splitOn "/").mapM parseCall) with
    | some (some r), some cs => "/".intercalate ((runCalls ⟨r, true⟩ cs).map dumpResult)
    | some none, some _ => "err"
    | _, _ => "bad-op"
  | _, _ => "bad-op"

def handle (op : String) (args : List String) : String :=
  match op, args with
  | "c17.col2idx", [h] => match unhexS h with
    | some s => toString (columnToIndex s) | none => "bad-op"
  | "c17.idx2col", [n] => match n.toInt? with
    | some i => hexS (indexToColumn i) | none => "bad-op"
  | "c17.parseref", [h] => match unhexS h with
    | some s => (match parseCellRef s with
      | .ok (c, r) => s!"ok {c} {r}" | .error _ => "err")
    | none => "bad-op"
  | "c17.cellref", [c, r] => match c.toInt?, r.toInt? with
    | some c, some r => hexS (cellRef c r) | _, _ => "bad-op"
  | "c17.range", [h] => match unhexS h with
    | some s => (match parseRangeRef s with
      | .ok (a, b, c, d) => s!"ok {a} {b} {c} {d}" | .error _ => "err")
    | none => "bad-op"
  | "c17.sheet", [shared, rows, merges] =>
    match parseHexList (shared.drop 2).toString, (if rows == "r=" then some [] else ((rows.drop 2).toString.splitOn "/").mapM parseRow),
          parseHexList (merges.drop 2).toString with
    | some sh, some rs, some ms => dumpGrid (parseWorksheet sh rs ms)
    | _, _, _ => "bad-op"
  | _, _ => handleWb op args

end Tabula.C17H
