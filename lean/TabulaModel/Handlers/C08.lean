import TabulaModel.Util
namespace Tabula.C08H

def handle (_op : String) (_args : List String) : String := "bad-op"

end Tabula.C08H
