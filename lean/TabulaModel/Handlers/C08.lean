import TabulaModel.Util
import TabulaModel.Model.GState
import TabulaModel.Model.XDoc
import TabulaModel.Lemmas.Expand
import TabulaModel.Model.TextAdv
import TabulaModel.Model.GPath
/-
Line protocol for C08.

  c08.gs  <tok> <tok> …   →  the fragments of `text.NewExtractor().Extract…(program)`
  c08.gfx <tok> <tok> …   →  the stroked lines of `graphicsstate.NewGraphicsExtractor()`

Tokens (no spaces inside; numbers are integers or `n/d`):
  q Q BT ET T*  cm:a,b,c,d,e,f  Tm:a,b,c,d,e,f  Td:x,y  TD:x,y  Tf:s  TL:l  Tc:c  Tw:w  Tz:z  Ts:r
  Tj:sid  ':sid  ":aw,ac,sid  TJ:item,item…  (item: s<sid> | n<number>; `TJ:e` = empty array)
  L:x0,y0,x1,y1  Do[ … ]  Do:a,b,c,d,e,f[ … ]
Reply of c08.gs: `err` (extraction failed), `-` (no fragment) or `x,y,size²` per fragment
joined by `;`, numbers as exact decimals; `~,~` for the origin of a fragment whose position
depends on a glyph advance, `~` for size² when it is not the square of a rational.
-/
namespace Tabula.C08H
open Tabula Tabula.GState

def parseRat (s : String) : Option Rat :=
  match s.splitOn "/" with
  | [n] => n.toInt?.map fun i => (i : Rat)
  | [n, d] => match n.toInt?, d.toNat? with
    | some i, some k => if k = 0 then none else some ((i : Rat) / (k : Rat))
    | _, _ => none
  | _ => none

def parseRats (s : String) : Option (List Rat) := (s.splitOn ",").mapM parseRat

def toMatrix : List Rat → Option (Matrix Rat)
  | [a, b, c, d, e, f] => some ⟨a, b, c, d, e, f⟩
  | _ => none

/-- one element of a `TJ` array: `s<sid>` or `n<number>` -/
def parseItem (t : String) : Option (TJItem Rat) :=
  if t.startsWith "s" then (t.drop 1).toString.toNat?.map .str
  else if t.startsWith "n" then (parseRat (t.drop 1).toString).map .num
  else none

def parseItems (sep : String) (v : String) : Option (List (TJItem Rat)) :=
  if v == "e" || v == "" then some [] else (v.splitOn sep).mapM parseItem

/-- one token that is not a bracket -/
def parseSimple (t : String) : Option (Op Rat) :=
  match t with
  | "q" => some .q | "Q" => some .Q | "BT" => some .BT | "ET" => some .ET | "T*" => some .Tstar
  | _ =>
    match t.splitOn ":" with
    | ["TJ", v] => (parseItems "," v).map .TJ
    | [k, v] => do
      let xs ← parseRats v
      match k, xs with
      | "cm", xs => (toMatrix xs).map .cm
      | "Tm", xs => (toMatrix xs).map .Tm
      | "Td", [x, y] => some (.Td x y)
      | "TD", [x, y] => some (.TD x y)
      | "Tf", [x] => some (.Tf x)
      | "TL", [x] => some (.TL x)
      | "Tc", [x] => some (.Tc x)
      | "Tw", [x] => some (.Tw x)
      | "Tz", [x] => some (.Tz x)
      | "Ts", [x] => some (.Ts x)
      | "Tj", [x] => some (.Tj x.num.toNat)
      | "'", [x] => some (.quote x.num.toNat)
      | "\"", [w, c, x] => some (.dquote w c x.num.toNat)
      | "L", [a, b, c, d] => some (.line a b c d)
      | _, _ => none
    | _ => none

/-- header of a form: `Do[` or `Do:a,b,c,d,e,f[` -/
def parseFormHead (t : String) : Option (Option (Matrix Rat)) :=
  if t == "Do[" then some none
  else if t.startsWith "Do:" && t.endsWith "[" then
    match parseRats ((t.drop 3).dropEnd 1).toString with
    | some xs => (toMatrix xs).map some
    | none => none
  else none

/-- recursive descent with fuel; returns the ops up to the closing `]` (or the end) and
the remaining tokens -/
def parseOps : Nat → List String → Option (List (Op Rat) × List String)
  | 0, _ => none
  | _, [] => some ([], [])
  | fuel + 1, t :: ts =>
    if t == "]" then some ([], ts)
    else match parseFormHead t with
      | some m => do
        let (body, ts1) ← parseOps fuel ts
        let (rest, ts2) ← parseOps fuel ts1
        pure (.form m body :: rest, ts2)
      | none => do
        let op ← parseSimple t
        let (rest, ts2) ← parseOps fuel ts
        pure (op :: rest, ts2)

def parseProgram (ts : List String) : Option (List (Op Rat)) :=
  match parseOps (2 * ts.length + 2) ts with
  | some (ops, []) => some ops
  | _ => none

def pow2? (n : Nat) : Option Nat :=
  let k := n.log2
  if 2 ^ k = n then some k else none

def padLeft (s : String) (n : Nat) : String := String.ofList (List.replicate (n - s.length) '0') ++ s

def trimZeros (cs : List Char) : List Char := (cs.reverse.dropWhile (· == '0')).reverse

/-- the exact decimal expansion of a dyadic rational, as `strconv.FormatFloat(x,'f',-1,64)`
prints an exactly representable value; other rationals as `n/d` -/
def dec (r : Rat) : String :=
  match pow2? r.den with
  | none => s!"{r.num}/{r.den}"
  | some k =>
    let n := r.num.natAbs * 5 ^ k
    let ip := n / 10 ^ k
    let fp := trimZeros (padLeft (toString (n % 10 ^ k)) k).toList
    let sign := if r.num < 0 then "-" else ""
    if fp.isEmpty then s!"{sign}{ip}" else s!"{sign}{ip}.{String.ofList fp}"

def isSquareNat (n : Nat) : Bool := n.sqrt * n.sqrt == n

def isSquare (r : Rat) : Bool := decide (0 ≤ r.num) && isSquareNat r.num.toNat && isSquareNat r.den

def showStr (sh : Show Rat) : String :=
  let pos := if sh.clean then s!"{dec sh.x},{dec sh.y}" else "~,~"
  let sz := if isSquare sh.tmScale2 && isSquare sh.ctmScale2
    then dec (sh.fs * sh.fs * sh.tmScale2 * sh.ctmScale2) else "~"
  s!"{pos},{sz}"

def segStr (g : Seg Rat) : String := s!"{dec g.x0},{dec g.y0},{dec g.x1},{dec g.y1}"

def joinOr (xs : List String) : String := if xs.isEmpty then "-" else ";".intercalate xs

/-! ### c08.doc: documents (object table, resources, raw operations), histories of Extract

  c08.doc R:<res> <object> … P <rawop> … [| <rawop> …]…

  <res>     nil (no resource context) or the /XObject slot of the page's resources
  slot      -  missing   ?  wrong type   @n  reference   {hexname=n;hexname=n}  direct
  <object>  O:n:X:{…}   an /XObject dictionary          O:n:R:<slot>  a resource dictionary
            O:n:?       anything else
            O:n:F:<matrix>:<resources>:<len>:<parses> [ <rawop> … ]     a form
              matrix: - (none) | e (empty array) | elements, `x` = not a number
              resources: - | ? | @n | D<slot> (direct dictionary with that /XObject slot)
  <rawop>   operator or operator:operand,operand…   operands: number | /hexname | s<sid> | ?
  each `|` starts another Extract call on the same extractor.

Reply, per call joined by `|`:  err or the deduplicated fragments `sid@x,y,size²`, then
`;raw=<count>:<hash>;b=<xobjectBytes>;d=<depth>;st=<stack>`.  Long fragment lists are cut to
the first and last 12 plus a hash of the whole list.  The programs of this op start with
`0 Tz`, which makes every glyph advance exactly 0, so every origin is compared. -/

open Tabula.XDoc

def parseHexName (s : String) : Option Name :=
  (unhexAux s.toList []).map fun bs => bs.map (·.toNat)

def parseOperand (t : String) : Option (Operand Rat) :=
  if t == "?" then some .other
  else if t.startsWith "[" && t.endsWith "]" then
    -- an array: the elements `showTextArray` looks at (strings and numbers), `;`-separated;
    -- an element of any other type is written `?` and dropped here, as its `switch` drops it
    let inner := ((t.drop 1).dropEnd 1).toString
    if inner.isEmpty then some (.arr [])
    else (((inner.splitOn ";").filter (· != "?")).mapM parseItem).map .arr
  else if t.startsWith "/" then (parseHexName (t.drop 1).toString).map .name
  else if t.startsWith "s" then (t.drop 1).toString.toNat?.map .str
  else (parseRat t).map .num

def parseOpr (k : String) : Opr :=
  match k with
  | "q" => .q | "Q" => .Q | "cm" => .cm | "BT" => .BT | "ET" => .ET | "Tf" => .Tf | "Tc" => .Tc
  | "Tw" => .Tw | "Tz" => .Tz | "TL" => .TL | "Ts" => .Ts | "Tm" => .Tm | "Td" => .Td | "TD" => .TD
  | "T*" => .Tstar | "Tj" => .Tj | "TJ" => .TJ | "'" => .quote | "\"" => .dquote | "Do" => .Do
  | _ => .other

def parseRawOp (t : String) : Option (RawOp Rat) :=
  match t.splitOn ":" with
  | [k] => some ⟨parseOpr k, []⟩
  | [k, v] => ((v.splitOn ",").mapM parseOperand).map fun xs => ⟨parseOpr k, xs⟩
  | _ => none

def parseBinding (t : String) : Option (Name × Nat) :=
  match t.splitOn "=" with
  | [k, v] => match parseHexName k, v.toNat? with
    | some n, some i => some (n, i)
    | _, _ => none
  | _ => none

def parseXSlot (s : String) : Option (Slot XDict) :=
  if s == "-" then some .missing
  else if s == "?" then some .junk
  else if s.startsWith "@" then (s.drop 1).toString.toNat?.map .ref
  else if s.startsWith "{" && s.endsWith "}" then
    let inner := ((s.drop 1).dropEnd 1).toString
    if inner.isEmpty then some (.direct [])
    else ((inner.splitOn ";").mapM parseBinding).map .direct
  else none

def parseResSlot (s : String) : Option (Slot Res) :=
  if s == "-" then some .missing
  else if s == "?" then some .junk
  else if s.startsWith "@" then (s.drop 1).toString.toNat?.map .ref
  else if s.startsWith "D" then (parseXSlot (s.drop 1).toString).map fun x => .direct ⟨x⟩
  else none

def parseMatrixArr (s : String) : Option (Option (List (Option Rat))) :=
  if s == "-" then some none
  else if s == "e" then some (some [])
  else ((s.splitOn ",").mapM fun t => if t == "x" then some none else (parseRat t).map some).map some

/-- raw operations up to (not including) the first token `stop`; the rest after it -/
def parseRawOps (stop : String) : List String → Option (List (RawOp Rat) × List String)
  | [] => some ([], [])
  | t :: ts =>
    if t == stop then some ([], ts)
    else do
      let op ← parseRawOp t
      let (rest, ts') ← parseRawOps stop ts
      pure (op :: rest, ts')

/-- objects until the token `P` -/
def parseObjects : Nat → List String → List (Nat × Obj Rat) → Option (List (Nat × Obj Rat) × List String)
  | 0, _, _ => none
  | _, [], acc => some (acc.reverse, [])
  | fuel + 1, t :: ts, acc =>
    if t == "P" then some (acc.reverse, ts)
    else match t.splitOn ":" with
      | ["O", n, "?"] => do
        let i ← n.toNat?
        parseObjects fuel ts ((i, .other) :: acc)
      | ["O", n, "X", d] => do
        let i ← n.toNat?
        match ← parseXSlot d with
        | .direct x => parseObjects fuel ts ((i, .xdict x) :: acc)
        | _ => none
      | ["O", n, "R", d] => do
        let i ← n.toNat?
        let x ← parseXSlot d
        parseObjects fuel ts ((i, .res ⟨x⟩) :: acc)
      | ["O", n, "F", m, r, l, ok] => do
        let i ← n.toNat?
        let m ← parseMatrixArr m
        let r ← parseResSlot r
        let l ← l.toNat?
        match ts with
        | "[" :: ts1 => do
          let (body, ts2) ← parseRawOps "]" ts1
          parseObjects fuel ts2 ((i, .form ⟨m, r, l, if ok == "1" then some body else none⟩) :: acc)
        | _ => none
      | _ => none

/-- the programs of a history, separated by `|` -/
def parsePrograms : Nat → List String → Option (List (List (RawOp Rat)))
  | 0, _ => none
  | fuel + 1, ts => do
    let (p, rest) ← parseRawOps "|" ts
    if rest.isEmpty && !(ts.contains "|") then pure [p]
    else do
      let more ← parsePrograms fuel rest
      pure (p :: more)

def polyHash (s : String) : Nat :=
  s.toList.foldl (fun h c => (h * 131 + c.toNat) % 1000000007) 7

def fragStr (f : Frag Rat) : String :=
  s!"{f.sid}@{dec f.sh.x},{dec f.sh.y},{dec (f.sh.fs * f.sh.fs * f.sh.tmScale2 * f.sh.ctmScale2)}"

def summarise (xs : List String) : String :=
  if xs.isEmpty then "-"
  else if xs.length ≤ 24 then ";".intercalate xs
  else
    let h := polyHash (";".intercalate xs)
    ";".intercalate (xs.take 12) ++ s!";..{xs.length}:{h}..;" ++ ";".intercalate (xs.drop (xs.length - 12))

/-- one Extract call: reply and the extractor afterwards -/
def docCall (doc : Doc Rat) (p : List (RawOp Rat)) (x : XState Rat) : XState Rat × String :=
  let r := extractRaw (fun _ _ => (0 : Rat)) doc p x
  let raw := r.2.1
  let main := if r.2.2 then "err"
    else if raw.length > 2000 then "dedup-skipped"
    else summarise ((dedupBy fragKey raw []).map fragStr)
  let rawS := raw.map fragStr
  (r.1, s!"{main};raw={raw.length}:{polyHash (";".intercalate rawS)};b={r.1.acct.bytes};d={r.1.gs.xdepth};st={r.1.gs.stack.length}")

def docCalls (doc : Doc Rat) : List (List (RawOp Rat)) → XState Rat → List String
  | [], _ => []
  | p :: rest, x =>
    let r := docCall doc p x
    r.2 :: docCalls doc rest r.1

/-- property mode (c08.docp): every fragment as `c08.gs` prints it (`~` where the origin
depends on a glyph advance or the size is not rational), no deduplication -/
def docpCall (doc : Doc Rat) (p : List (RawOp Rat)) (x : XState Rat) : XState Rat × String :=
  let r := extractRaw (fun _ _ => (0 : Rat)) doc p x
  let main := if r.2.2 then "err" else joinOr (r.2.1.map fun f => s!"{f.sid}@{showStr f.sh}")
  (r.1, s!"{main};b={r.1.acct.bytes};d={r.1.gs.xdepth};st={r.1.gs.stack.length}")

def docpCalls (doc : Doc Rat) : List (List (RawOp Rat)) → XState Rat → List String
  | [], _ => []
  | p :: rest, x =>
    let r := docpCall doc p x
    r.2 :: docpCalls doc rest r.1

/-- c08.docx / c08.docx0: the first program on a new extractor, computed the other way
round: unfold the document into a form tree (`expandPage`, the object of
`extract_unfolds`) and run the operator model of `Model/GState.lean` on the tree.
`zeroAdv`: every origin is printed (programs that start with `0 Tz`). -/
def docxReply (zeroAdv : Bool) (doc : Doc Rat) (res : Option Res) (p : List (RawOp Rat)) : String :=
  let e := expandPage doc res 0 p ⟨0, 0, 0⟩
  match exec (fun _ _ => (0 : Rat)) e.1 (init : State Rat) with
  | none => "err"
  | some r =>
    let str := fun (sh : Show Rat) => if zeroAdv then showStr { sh with clean := true } else showStr sh
    let main := if r.2.length > 2000 then s!"n={r.2.length}" else summarise (r.2.map str)
    s!"{main};b={e.2.bytes};d={r.1.xdepth};st={r.1.stack.length}"

def handleDocx (zeroAdv : Bool) (args : List String) : String :=
  match args with
  | r :: rest =>
    let res : Option (Option Res) :=
      if r == "R:nil" then some none
      else if r.startsWith "R:" then (parseXSlot (r.drop 2).toString).map fun x => some ⟨x⟩
      else none
    match res, parseObjects (rest.length + 2) rest [] with
    | some res, some (objs, ptoks) =>
      match parsePrograms (ptoks.length + 2) ptoks with
      | some (p :: _) => docxReply zeroAdv (fun n => objs.lookup n) res p
      | _ => "bad-op"
    | _, _ => "bad-op"
  | [] => "bad-op"

def handleDoc (propMode : Bool) (args : List String) : String :=
  match args with
  | r :: rest =>
    let res : Option (Option Res) :=
      if r == "R:nil" then some none
      else if r.startsWith "R:" then (parseXSlot (r.drop 2).toString).map fun x => some ⟨x⟩
      else none
    match res, parseObjects (rest.length + 2) rest [] with
    | some res, some (objs, ptoks) =>
      match parsePrograms (ptoks.length + 2) ptoks with
      | some progs =>
        let doc : Doc Rat := fun n => objs.lookup n
        "|".intercalate (if propMode then docpCalls doc progs (newExtractor res)
          else docCalls doc progs (newExtractor res))
      | none => "bad-op"
    | _, _ => "bad-op"
  | [] => "bad-op"

/-! ### c08.tx: every origin, with the displacement function of the code

  c08.tx I:<sid>=<w0>,<n>,<sp>;…  <tok> …

`I:` gives, per string id, what the font package reports for the string: the width
`GetStringWidth(decoded)` in 1/1000 of the font size, its length in bytes, its number of
space bytes (`I:-` = no strings).  The tokens are those of c08.gs.  Reply as c08.gs, but the
origin of EVERY fragment is printed (model: `run (TextAdv.advance info)`). -/

open Tabula.TextAdv

def parseInfo (s : String) : Option (List (Nat × StrInfo Rat)) :=
  if s == "I:-" then some []
  else if s.startsWith "I:" then
    ((s.drop 2).toString.splitOn ";").mapM fun e =>
      match e.splitOn "=" with
      | [k, v] => match k.toNat?, parseRats v with
        | some sid, some [w0, n, sp] => some (sid, ⟨w0, n, sp⟩)
        | _, _ => none
      | _ => none
  else none

def showStrAll (sh : Show Rat) : String := showStr { sh with clean := true }

def handleTx (args : List String) : String :=
  match args with
  | i :: toks =>
    match parseInfo i, parseProgram toks with
    | some tbl, some ops =>
      let info : Nat → StrInfo Rat := fun sid => (tbl.lookup sid).getD ⟨0, 0, 0⟩
      (match run (advance info) ops init with
      | some shows => joinOr (shows.map showStrAll)
      | none => "err")
    | _, _ => "bad-op"
  | [] => "bad-op"

/-! ### c08.path: the graphics extractor on raw operations

  c08.path <rawop> …        operator or operator:operand,operand…  (operands as in c08.doc)

Reply: `ok` or `err`, then `;L=` the lines `x0,y0,x1,y1,width,flags,bx,by,bw,bh` (flags: h, v,
hv or -) joined by `|`, `;R=` the rectangles `bx,by,bw,bh,strokeWidth,filled,stroked`, `;fl=`
and `;fr=` the numbers of lines / rectangles that pass `GetFilteredLines` (min length 1) /
`GetFilteredRectangles` (min 1 × 1), `;st=` the saved states, `;p=` the number of segments of
the path under construction. -/

open Tabula.GPath

def parseGOpr (k : String) : GOpr :=
  match k with
  | "q" => .q | "Q" => .Q | "cm" => .cm | "w" => .w | "m" => .m | "l" => .l | "c" => .c | "v" => .v
  | "y" => .y | "h" => .h | "re" => .re | "S" => .S | "s" => .s | "f" => .f | "F" => .F | "f*" => .fstar
  | "B" => .B | "B*" => .Bstar | "b" => .b | "b*" => .bstar | "n" => .n
  | _ => .other

def parseRawG (t : String) : Option (RawG Rat) :=
  match t.splitOn ":" with
  | [k] => some ⟨parseGOpr k, []⟩
  | [k, v] => ((v.splitOn ",").mapM parseOperand).map fun xs => ⟨parseGOpr k, xs⟩
  | _ => none

def lineStr (l : Line Rat) : String :=
  let fl := (if l.horiz then "h" else "") ++ (if l.vert then "v" else "")
  let fl := if fl.isEmpty then "-" else fl
  s!"{dec l.p0.1},{dec l.p0.2},{dec l.p1.1},{dec l.p1.2},{dec l.width},{fl},{dec l.bbox.x},{dec l.bbox.y},{dec l.bbox.w},{dec l.bbox.h}"

def rectStr (r : GPath.Rect Rat) : String :=
  s!"{dec r.bbox.x},{dec r.bbox.y},{dec r.bbox.w},{dec r.bbox.h},{dec r.strokeWidth},{if r.filled then 1 else 0},{if r.stroked then 1 else 0}"

def joinBar (xs : List String) : String := if xs.isEmpty then "-" else "|".intercalate xs

def handlePath (args : List String) : String :=
  match args.mapM parseRawG with
  | some ops =>
    let r := GPath.extract ops (GPath.init : PState Rat)
    let st := r.1
    s!"{if r.2 then "err" else "ok"};L={joinBar (st.lines.map lineStr)};R={joinBar (st.rects.map rectStr)};fl={(filterLines 1 st.lines).length};fr={(filterRects 1 1 st.rects).length};st={st.stack.length};p={st.path.segs.length}"
  | none => "bad-op"

def handle (op : String) (args : List String) : String :=
  match op with
  | "c08.tx" => handleTx args
  | "c08.path" => handlePath args
  | "c08.doc" => handleDoc false args
  | "c08.docp" => handleDoc true args
  | "c08.docx" => handleDocx false args
  | "c08.docx0" => handleDocx true args
  | "c08.gs" => match parseProgram args with
    | some ops => (match run (fun _ _ => (0 : Rat)) ops init with
      | some shows => joinOr (shows.map showStr)
      | none => "err")
    | none => "bad-op"
  | "c08.gfx" => match parseProgram args with
    | some ops => (match gfx ops (init : State Rat) with
      | some segs => joinOr (segs.map segStr)
      | none => "err")
    | none => "bad-op"
  | _ => "bad-op"

end Tabula.C08H
