import TabulaModel.Util
import TabulaModel.Model.GState
/-
Line protocol for C08.

  c08.gs  <tok> <tok> …   →  the fragments of `text.NewExtractor().Extract…(program)`
  c08.gfx <tok> <tok> …   →  the stroked lines of `graphicsstate.NewGraphicsExtractor()`

Tokens (no spaces inside; numbers are integers or `n/d`):
  q Q BT ET T*  cm:a,b,c,d,e,f  Tm:a,b,c,d,e,f  Td:x,y  TD:x,y  Tf:s  TL:l  Tc:c  Tw:w  Tz:z
  Tj:sid  ':sid  ":aw,ac,sid  L:x0,y0,x1,y1  Do[ … ]  Do:a,b,c,d,e,f[ … ]
Reply of c08.gs: `err` (extraction failed), `-` (no fragment) or `x,y,size²` per fragment
joined by `;`, numbers as exact decimals; `~,~` for the origin of a fragment whose position
depends on a glyph advance, `~` for size² when it is not the square of a rational.
-/
namespace Tabula.C08H
open Tabula Tabula.GState

def parseRat (s : String) : Option Rat :=
  match s.splitOn "/" with
  | [n] => n.toInt?.map fun i => (i : Rat)
  | [n, d] => match n.toInt?, d.toNat? with
    | some i, some k => if k = 0 then none else some ((i : Rat) / (k : Rat))
    | _, _ => none
  | _ => none

def parseRats (s : String) : Option (List Rat) := (s.splitOn ",").mapM parseRat

def toMatrix : List Rat → Option (Matrix Rat)
  | [a, b, c, d, e, f] => some ⟨a, b, c, d, e, f⟩
  | _ => none

/-- one token that is not a bracket -/
def parseSimple (t : String) : Option (Op Rat) :=
  match t with
  | "q" => some .q | "Q" => some .Q | "BT" => some .BT | "ET" => some .ET | "T*" => some .Tstar
  | _ =>
    match t.splitOn ":" with
    | [k, v] => do
      let xs ← parseRats v
      match k, xs with
      | "cm", xs => (toMatrix xs).map .cm
      | "Tm", xs => (toMatrix xs).map .Tm
      | "Td", [x, y] => some (.Td x y)
      | "TD", [x, y] => some (.TD x y)
      | "Tf", [x] => some (.Tf x)
      | "TL", [x] => some (.TL x)
      | "Tc", [x] => some (.Tc x)
      | "Tw", [x] => some (.Tw x)
      | "Tz", [x] => some (.Tz x)
      | "Tj", [x] => some (.Tj x.num.toNat)
      | "'", [x] => some (.quote x.num.toNat)
      | "\"", [w, c, x] => some (.dquote w c x.num.toNat)
      | "L", [a, b, c, d] => some (.line a b c d)
      | _, _ => none
    | _ => none

/-- header of a form: `Do[` or `Do:a,b,c,d,e,f[` -/
def parseFormHead (t : String) : Option (Option (Matrix Rat)) :=
  if t == "Do[" then some none
  else if t.startsWith "Do:" && t.endsWith "[" then
    match parseRats ((t.drop 3).dropEnd 1).toString with
    | some xs => (toMatrix xs).map some
    | none => none
  else none

/-- recursive descent with fuel; returns the ops up to the closing `]` (or the end) and
the remaining tokens -/
def parseOps : Nat → List String → Option (List (Op Rat) × List String)
  | 0, _ => none
  | _, [] => some ([], [])
  | fuel + 1, t :: ts =>
    if t == "]" then some ([], ts)
    else match parseFormHead t with
      | some m => do
        let (body, ts1) ← parseOps fuel ts
        let (rest, ts2) ← parseOps fuel ts1
        pure (.form m body :: rest, ts2)
      | none => do
        let op ← parseSimple t
        let (rest, ts2) ← parseOps fuel ts
        pure (op :: rest, ts2)

def parseProgram (ts : List String) : Option (List (Op Rat)) :=
  match parseOps (2 * ts.length + 2) ts with
  | some (ops, []) => some ops
  | _ => none

def pow2? (n : Nat) : Option Nat :=
  let k := n.log2
  if 2 ^ k = n then some k else none

def padLeft (s : String) (n : Nat) : String := String.ofList (List.replicate (n - s.length) '0') ++ s

def trimZeros (cs : List Char) : List Char := (cs.reverse.dropWhile (· == '0')).reverse

/-- the exact decimal expansion of a dyadic rational, as `strconv.FormatFloat(x,'f',-1,64)`
prints an exactly representable value; other rationals as `n/d` -/
def dec (r : Rat) : String :=
  match pow2? r.den with
  | none => s!"{r.num}/{r.den}"
  | some k =>
    let n := r.num.natAbs * 5 ^ k
    let ip := n / 10 ^ k
    let fp := trimZeros (padLeft (toString (n % 10 ^ k)) k).toList
    let sign := if r.num < 0 then "-" else ""
    if fp.isEmpty then s!"{sign}{ip}" else s!"{sign}{ip}.{String.ofList fp}"

def isSquareNat (n : Nat) : Bool := n.sqrt * n.sqrt == n

def isSquare (r : Rat) : Bool := decide (0 ≤ r.num) && isSquareNat r.num.toNat && isSquareNat r.den

def showStr (sh : Show Rat) : String :=
  let pos := if sh.clean then s!"{dec sh.x},{dec sh.y}" else "~,~"
  let sz := if isSquare sh.tmScale2 && isSquare sh.ctmScale2
    then dec (sh.fs * sh.fs * sh.tmScale2 * sh.ctmScale2) else "~"
  s!"{pos},{sz}"

def segStr (g : Seg Rat) : String := s!"{dec g.x0},{dec g.y0},{dec g.x1},{dec g.y1}"

def joinOr (xs : List String) : String := if xs.isEmpty then "-" else ";".intercalate xs

def handle (op : String) (args : List String) : String :=
  match op with
  | "c08.gs" => match parseProgram args with
    | some ops => (match run (fun _ _ => (0 : Rat)) ops init with
      | some shows => joinOr (shows.map showStr)
      | none => "err")
    | none => "bad-op"
  | "c08.gfx" => match parseProgram args with
    | some ops => (match gfx ops (init : State Rat) with
      | some segs => joinOr (segs.map segStr)
      | none => "err")
    | none => "bad-op"
  | _ => "bad-op"

end Tabula.C08H
