import TabulaModel.Util
import TabulaModel.Model.Session
namespace Tabula.C03H
open Tabula Tabula.Session

/-- token: `n<int>` or `o<hexname-as-nat>`; here operators are sent as their first byte -/
def parseTok (s : String) : Option Tok :=
  match s.toList with
  | 'n' :: r => (String.ofList r).toInt?.map .num
  | 'o' :: r => (String.ofList r).toNat?.map .op
  | _ => none

def parseCall (s : String) : Option (List Tok) :=
  if s == "-" then some [] else (s.splitOn ",").mapM parseTok

def showOps (ops : List Operation) : String :=
  ";".intercalate (ops.map fun o => s!"{o.name}:{",".intercalate (o.operands.map toString)}")

def parseEntry (s : String) : Option (Name × Nat) :=
  match s.splitOn "=" with
  | [n, f] => do
    let n ← unhex n
    let f ← f.toNat?
    pure (n.map (·.toNat), f)
  | _ => none

def handle (op : String) (args : List String) : String :=
  match op, args with
  | "c03.sess", calls =>
    match calls.mapM parseCall with
    | some cs =>
      (match (sessionOwn cs).getLast? with
       | some ops => "[" ++ showOps ops ++ "]"
       | none => "[]")
    | none => "bad-op"
  | "c03.fonts", [entries, keys] =>
    match (if entries == "-" then some [] else (entries.splitOn ",").mapM parseEntry),
          (if keys == "-" then some [] else (keys.splitOn ",").mapM unhex) with
    | some es, some ks =>
      let m := registerAll es
      ",".intercalate (ks.map fun k => match m (k.map (·.toNat)) with | some f => toString f | none => "-")
    | _, _ => "bad-op"
  | _, _ => "bad-op"

end Tabula.C03H
