import TabulaModel.Util
import TabulaModel.Model.Session
import TabulaModel.Model.MapOrder
import TabulaModel.Model.MapOrderCsv
import TabulaModel.Model.Process
import TabulaModel.Model.OptHeap
import TabulaModel.Model.Extraction
import TabulaModel.Model.ReaderHist
namespace Tabula.C03H
open Tabula Tabula.Session

/-- token: `n<int>` or `o<hexname-as-nat>`; here operators are sent as their first byte -/
def parseTok (s : String) : Option Tok :=
  match s.toList with
  | 'n' :: r => (String.ofList r).toInt?.map .num
  | 'o' :: r => (String.ofList r).toNat?.map .op
  | _ => none

def parseCall (s : String) : Option (List Tok) :=
  if s == "-" then some [] else (s.splitOn ",").mapM parseTok

def showOps (ops : List Operation) : String :=
  ";".intercalate (ops.map fun o => s!"{o.name}:{",".intercalate (o.operands.map toString)}")

def parseEntry (s : String) : Option (Name × Nat) :=
  match s.splitOn "=" with
  | [n, f] => do
    let n ← unhex n
    let f ← f.toNat?
    pure (n.map (·.toNat), f)
  | _ => none

/-! ### map-order ops -/
open Tabula.MapOrder

/-- `-` = empty list, else `sep`-separated items -/
def listOf {α : Type} (sep : String) (f : String → Option α) (s : String) : Option (List α) :=
  if s == "-" then some [] else (s.splitOn sep).mapM f

def pairOf {α β : Type} (sep : String) (f : String → Option α) (g : String → Option β) (s : String) : Option (α × β) :=
  match s.splitOn sep with
  | [a, b] => do pure (← f a, ← g b)
  | _ => none

/-! ### reader histories (`Model/ReaderHist.lean`) -/

/-- `-` = header that does not parse, `e` = empty header, else numbers joined by `.` -/
def parseHeaderNums (s : String) : Option (Option (List Nat)) :=
  if s == "-" then some none else if s == "e" then some (some [])
  else ((s.splitOn ".").mapM String.toNat?).map some

/-- members joined by `.`: an integer, or `!` for one that does not parse; `e` = none -/
def parseMembers (s : String) : Option (List (Option Int)) :=
  if s == "e" then some []
  else (s.splitOn ".").mapM fun m => if m == "!" then some none else m.toInt?.map some

/-- `f` free, `x` own but unreadable, `o<int>` own value, `s<stm>.<idx>` member,
`m<0|1>/<header>/<members>` an object stream -/
def parseXEntry (s : String) : Option ReaderHist.XEntry :=
  match s.toList with
  | ['f'] => some .free
  | ['x'] => some (.own none)
  | 'o' :: r => (String.ofList r).toInt?.map fun v => .own (some (.val v))
  | 's' :: r =>
    (match (String.ofList r).splitOn "." with
     | [a, b] => do pure (.inStm (← a.toNat?) (← b.toNat?))
     | _ => none)
  | 'm' :: r =>
    (match (String.ofList r).splitOn "/" with
     | [d, h, m] => do
       let h ← parseHeaderNums h
       let m ← parseMembers m
       pure (.own (some (.stm { decodes := d == "1", header := h, member := m })))
     | _ => none)
  | _ => none

def parseRAccess (s : String) : Option ReaderHist.Access :=
  match s.toList with
  | ['c'] => some .clear
  | 'g' :: r => (String.ofList r).toNat?.map .get
  | _ => none

def showRObj : Option ReaderHist.Obj → String
  | some (.val v) => toString v
  | some (.stm _) => "stm"
  | none => "-"

def parsePageCall (s : String) : Option ReaderHist.PageCall :=
  match s.toList with
  | ['c'] => some .count
  | ['a'] => some .pages
  | 'p' :: r => (String.ofList r).toNat?.map .page
  | _ => none

def showPageAns : ReaderHist.PageAns Nat → String
  | .err => "err"
  | .count n => s!"c{n}"
  | .page p => s!"p{p}"
  | .all l => s!"a{l.length}"


def hexStr (s : String) : Option (List Nat) := (unhex s).map fun b => b.map (·.toNat)

def showHex (l : List Nat) : String := if l.isEmpty then "-" else hex (l.map fun n => UInt8.ofNat n)

def showInts (l : List Int) : String := if l.isEmpty then "-" else ",".intercalate (l.map toString)

def showTol : Tol → String
  | .dflt => "dflt" | .std => "std" | .floor => "floor" | .gap g => s!"gap:{g}"

def isPermInts (a b : List Int) : Bool := sortInts a == sortInts b

def isPermStrs (a b : List (List Nat)) : Bool := Export.sortStrings a == Export.sortStrings b

/-- re-order the entries of a map as the keys `ks` say (an iteration of the map) -/
def arrange {β : Type} (m : List (Int × β)) (ks : List Int) : Option (List (Int × β)) :=
  ks.mapM fun k => (assocGet m k).map fun v => (k, v)

def voteOp (kind vals itKeys : String) : String :=
  match listOf "," String.toInt? itKeys with
  | none => "bad-op"
  | some ks =>
    let run (counts : List (Int × Int)) (fin : List (Int × Int) → String) : String :=
      if !isPermInts (counts.map Prod.fst) ks then "bad-it"
      else match arrange counts ks with
        | some it => fin it
        | none => "bad-it"
    match kind with
    | "m" => match listOf "," String.toInt? vals with
      | some xs => run (marginCounts xs) fun it => toString (detectLeftMarginVia xs it)
      | none => "bad-op"
    | "a" => match listOf "," String.toInt? vals with
      | some as => run (alignCounts as) fun it => toString (detectDominantAlignmentVia as it)
      | none => "bad-op"
    | "f" => match listOf "," (pairOf ":" String.toInt? String.toInt?) vals with
      | some ps => run (fontCounts ps) fun it =>
          match detectBodyFontSizeVia ps it with | some b => toString b | none => "-"
      | none => "bad-op"
    | _ => "bad-op"

/-- sub-dictionary entries `hexname:id+hexname:id` -/
def parseSub (s : String) : Option (List (List Nat × Nat)) :=
  if s.isEmpty then some [] else (s.splitOn "+").mapM (pairOf ":" hexStr String.toNat?)

/-- `hexname=o<id>` or `hexname=d<sub>` -/
def parseREntry (s : String) : Option (List Nat × RVal) :=
  match s.splitOn "=" with
  | [k, v] => do
    let k ← hexStr k
    match v.toList with
    | 'o' :: r => (String.ofList r).toNat?.map fun i => (k, RVal.other i)
    | 'd' :: r => (parseSub (String.ofList r)).map fun c => (k, RVal.dict c)
    | _ => none
  | _ => none

def showMVal (subs : List (List Nat)) : Option MVal → String
  | none => "-"
  | some (.other i) => s!"o{i}"
  | some (.dict m) => "d{" ++ ",".intercalate (subs.map fun n =>
      match m n with | some i => toString i | none => "-") ++ "}"

def mergeOp (parent child itParent itChild probes : String) : String :=
  match listOf "," parseREntry parent, listOf "," parseREntry child,
        listOf "," parseREntry itParent, listOf "," parseREntry itChild,
        listOf "," (pairOf ":" hexStr (fun s => if s.isEmpty then some [] else (s.splitOn "+").mapM hexStr)) probes with
  | some p, some c, some ip, some ic, some pr =>
    if !isPermStrs (p.map Prod.fst) (ip.map Prod.fst) || !isPermStrs (c.map Prod.fst) (ic.map Prod.fst) then "bad-it"
    else
      let m := mergeResourcesVia p ip ic (subOf ip) (subOf ic)
      ";".intercalate (pr.map fun (k, subs) => showMVal subs (m k))
  | _, _, _, _, _ => "bad-op"

/-! ### the process: families of extractors on several documents -/
open Tabula.Builder Tabula.Process Tabula.OptHeap

/-- `<pages or x or y>:<f|r>:<format letter>:<messy bits or ->`; `x` = the file is refused when it is
opened, `y` = it opens and its page tree cannot be read (`World.pageCount = none` on an open reader) -/
def parseDoc (s : String) : Option Doc :=
  match s.splitOn ":" with
  | [n, base, fmt, messy] => do
    let world : World ← (if n == "x" then some ⟨false, none⟩ else if n == "y" then some ⟨true, none⟩ else n.toNat?.map fun k => ⟨true, some k⟩)
    let f : Fmt ← (match fmt with
      | "p" => some .pdf | "d" => some .docx | "o" => some .odt | "x" => some .xlsx
      | "t" => some .pptx | "h" => some .html | "e" => some .epub | _ => none)
    let m := if messy == "-" then [] else messy.toList.map (· == '1')
    pure { world := world, fmt := f, fromReader := base == "r", messy := m }
  | _ => none

def parseBCall (s : String) : Option BCall :=
  match s.toList with
  | 'P' :: r => (listOf "+" String.toInt? (String.ofList r)).map .pages
  | 'R' :: r => match (String.ofList r).splitOn "_" with
    | [a, b] => do pure (.pageRange (← a.toInt?) (← b.toInt?))
    | _ => none
  | ['H'] => some .excludeHeaders
  | ['F'] => some .excludeFooters
  | ['B'] => some .excludeHeadersAndFooters
  | ['J'] => some .joinParagraphs
  | ['C'] => some .byColumn
  | ['L'] => some .preserveLayout
  | _ => none

def parseTerm : String → Option Term
  | "text" => some .text | "frag" => some .fragments | "doc" => some .document
  | "lines" => some .lines | "paras" => some .paragraphs | "chunks" => some .chunks
  | "md" => some .toMarkdown | _ => none

/-- `<fam>/d<i>/<call>`, `<fam>/t<i>/<term>`, `<fam>/n<i>` (PageCount), `<fam>/c<i>` (Close) -/
def parseCallP (s : String) : Option Call :=
  match s.splitOn "/" with
  | [f, o] => do
    let f ← f.toNat?
    match o.toList with
    | 'n' :: r => (String.ofList r).toNat?.map fun i => ⟨f, .nonTerm i .pageCount⟩
    | 'c' :: r => (String.ofList r).toNat?.map fun i => ⟨f, .close i⟩
    | _ => none
  | [f, o, a] => do
    let f ← f.toNat?
    match o.toList with
    | 'd' :: r => do pure ⟨f, .derive (← (String.ofList r).toNat?) (← parseBCall a)⟩
    | 't' :: r => do pure ⟨f, .term (← (String.ofList r).toNat?) (← parseTerm a)⟩
    | _ => none
  | _ => none

def showAns : Ans → String
  | (.none, _) => "none"
  | (.closed, _) => "closed"
  | (.count n, _) => s!"count:{n}"
  | (.flag, _) => "flag"
  | (.pages l, w) => "pages:" ++ (if l.isEmpty then "-" else "+".intercalate (l.map toString)) ++ s!"/w{w}"
  | (.whole, w) => s!"whole/w{w}"
  | (.err, _) => "err"
  | (.bad, _) => "bad"

/-- the process with every family's page lists kept on a heap of Go slices (`Model/OptHeap.lean`):
after each configuration call the page list of EVERY extractor of the family is read back from
the heap, so what the terminal operations see is what the slices show -/
structure HProc where
  fams : Proc
  heaps : List HFam

def hproc0 (docs : List Doc) : HProc :=
  { fams := proc0 docs, heaps := docs.map fun d => hbase d.base }

def syncPages (f : Fam) (h : HFam) : Fam :=
  { f with st := { f.st with exts := List.zipWith (fun (e : Ext) x => { e with opts := { e.opts with pages := readOpt h.H x.sl } }) f.st.exts h.xs } }

def hprocStep (docs : List Doc) (p : HProc) (c : Call) : HProc × Ans :=
  let (fams1, a) := procStep docs p.fams c
  match c.op, p.heaps[c.fam]?, fams1[c.fam]? with
  | .derive i b, some h, some f =>
    let h1 := h.derive growDouble i b
    ({ fams := fams1.set c.fam (syncPages f h1), heaps := p.heaps.set c.fam h1 }, a)
  | _, _, _ => ({ p with fams := fams1 }, a)

def hprocRun (docs : List Doc) : HProc → List Call → List Ans
  | _, [] => []
  | p, c :: cs => let (p1, a) := hprocStep docs p c; a :: hprocRun docs p1 cs

def parseAccess (s : String) : Option (Access Nat) :=
  match s.toList with
  | ['c'] => some .clear
  | 'g' :: r => (String.ofList r).toNat?.map .get
  | _ => none

def handle (op : String) (args : List String) : String :=
  match op, args with
  | "c03.sess", calls =>
    match calls.mapM parseCall with
    | some cs =>
      (match (sessionOwn cs).getLast? with
       | some ops => "[" ++ showOps ops ++ "]"
       | none => "[]")
    | none => "bad-op"
  | "c03.fonts", [entries, keys] =>
    match (if entries == "-" then some [] else (entries.splitOn ",").mapM parseEntry),
          (if keys == "-" then some [] else (keys.splitOn ",").mapM unhex) with
    | some es, some ks =>
      let m := registerAll es
      ",".intercalate (ks.map fun k => match m (k.map (·.toNat)) with | some f => toString f | none => "-")
    | _, _ => "bad-op"
  | "c03.tol", [frags, it] =>
    match listOf "," (pairOf ":" String.toInt? String.toInt?) frags, listOf "," String.toInt? it with
    | some fs, some it =>
      if !isPermInts it (ySet (fs.map Prod.fst)) then "bad-it"
      else showTol (toleranceVia sortInts sortInts fs it)
    | _, _ => "bad-op"
  | "c03.vote", [kind, vals, itKeys] => voteOp kind vals itKeys
  | "c03.csvcols", [flags, chunkKeys, itKeys] =>
    match flags.toList, listOf ";" (listOf "," hexStr) chunkKeys, listOf "," hexStr itKeys with
    | [t, m, e], some cks, some it =>
      let cfg : Export.Config := { includeText := t == '1', includeMetadata := m == '1', includeEmbeddings := e == '1' }
      if !isPermStrs it (collectKeysVia id cks []) then "bad-it"
      else ",".intercalate ((collectCSVColumnsVia Export.sortStrings cfg it).map showHex)
    | _, _, _ => "bad-op"
  | "c03.merge", [parent, child, itParent, itChild, probes] => mergeOp parent child itParent itChild probes
  | "c03.glyphs", [entries, probes] =>
    -- entries `code=rune` / `code=-` (glyph name without a Unicode value); probes `code:baseRune`
    match listOf "," (pairOf "=" String.toNat? (fun s => if s == "-" then some none else s.toNat?.map some)) entries,
          listOf "," (pairOf ":" String.toNat? String.toNat?) probes with
    | some es, some ps =>
      let m := copySome (fun (x : Option Nat) => x) es FMap.empty
      ",".intercalate (ps.map fun (c, base) => match m c with | some r => toString r | none => toString base)
    | _, _ => "bad-op"
  | "c03.numbers", [levels] =>
    match listOf "," String.toInt? levels with
    | some ls => showInts (numberItems List.reverse ls)
    | none => "bad-op"
  | "c03.nav", [entries] =>
    -- `hexid=flags`, flags a subset of "nx" (`-` = none): n = properties has "nav", x = NCX media type
    match listOf "," (pairOf "=" hexStr (fun s => some s)) entries with
    | some es =>
      let pick (c : Char) := match minMatch Export.sortStrings (fun (f : String) => f.toList.contains c) es with
        | some (k, _) => showHex k
        | none => "-"
      pick 'n' ++ "/" ++ pick 'x'
    | none => "bad-op"
  | "c03.images", [entries] =>
    -- `hexname=kind`, kind i = an image XObject that extracts, anything else is skipped
    match listOf "," (pairOf "=" hexStr (fun s => some s)) entries with
    | some es =>
      let r := collectSorted Export.sortStrings (fun k (v : String) => if v == "i" then some k else none) es
      if r.isEmpty then "-" else ",".intercalate (r.map showHex)
    | none => "bad-op"
  | "c03.regions", [entries] =>
    -- `hexpattern=confidenceRank`
    match listOf "," (pairOf "=" hexStr String.toInt?) entries with
    | some es =>
      let r := regionsSorted Export.sortStrings (fun k (v : Int) => some (k, v)) (fun x => x.2) es
      if r.isEmpty then "-" else ",".intercalate (r.map fun x => showHex x.1)
    | none => "bad-op"
  | "c03.world", [docs, sched] =>
    match listOf ";" parseDoc docs, listOf "," parseCallP sched with
    | some ds, some cs => ";".intercalate ((hprocRun ds (hproc0 ds) cs).map showAns)
    | _, _ => "bad-op"
  | "c03.page", [rt, fonts, keys, toks, frags, xs, aligns, paras] =>
    match listOf "," parseEntry fonts, listOf "," hexStr keys, parseCall toks,
          listOf "," (pairOf ":" String.toInt? String.toInt?) frags, listOf "," String.toInt? xs,
          listOf "," String.toInt? aligns, listOf "," (pairOf ":" String.toInt? String.toInt?) paras with
    | some fd, some ks, some tk, some fr, some lx, some al, some pa =>
      let ρ := if rt == "rev" then Extraction.Runtime.rev else Extraction.Runtime.ref
      let f := Extraction.pageFacts ρ { fontDict := fd, tokens := tk, frags := fr, lineXs := lx, aligns := al, paras := pa }
      "|".intercalate [",".intercalate (ks.map fun k => match f.fonts k with | some i => toString i | none => "-"),
        "[" ++ showOps f.ops ++ "]", showTol f.tol, toString f.margin, toString f.align,
        (match f.bodySize with | some b => toString b | none => "-")]
    | _, _, _, _, _, _, _ => "bad-op"
  | "c03.cache", [spec, accesses] =>
    match listOf "," (pairOf "=" String.toNat? String.toInt?) spec, listOf "," parseAccess accesses with
    | some sp, some as =>
      let r := (accessRun (fun n => Tabula.MapOrder.assocGet sp n) [] as).2
      ",".intercalate (r.map fun | some v => toString v | none => "-")
    | _, _ => "bad-op"
  | "c03.objstm", [xref, accesses] =>
    match listOf "," (pairOf "=" String.toNat? parseXEntry) xref, listOf "," parseRAccess accesses with
    | some x, some as => ",".intercalate ((ReaderHist.run x ReaderHist.Reader.empty as).map showRObj)
    | _, _ => "bad-op"
  | "c03.pages", [root, declared, walk, calls] =>
    match listOf "," parsePageCall calls with
    | some cs =>
      let w : Option (List Nat) := if walk == "-" then none else walk.toNat?.map List.range
      let f : ReaderHist.TreeFile Nat := { hasRoot := root == "1", declared := declared == "1", walk := w }
      ",".intercalate ((ReaderHist.pageRun f {} cs).map showPageAns)
    | none => "bad-op"
  | _, _ => "bad-op"

end Tabula.C03H
