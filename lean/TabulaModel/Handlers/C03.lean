import TabulaModel.Util
namespace Tabula.C03H

def handle (_op : String) (_args : List String) : String := "bad-op"

end Tabula.C03H
