import TabulaModel.Util
import TabulaModel.Model.Chunk
import TabulaModel.Model.ChunkLayout
import TabulaModel.Model.ChunkSent
import TabulaModel.Model.ChunkSplit
import TabulaModel.Model.ChunkApi
import TabulaModel.Model.ChunkAtomic
import TabulaModel.Model.ChunkMeta
import TabulaModel.Model.ChunkColl
import TabulaModel.Model.ChunkIntro
import TabulaModel.Model.ChunkDoc
import TabulaModel.Model.ChunkLayoutX
/-!
Line protocol of C12 (see `harness/c12/gen.go: docWire`, `layout.go: layoutWire`).

* `c12.chunk s=<split table> d=<doc>` — element-based chunker
* `c12.lchunk <max> <min> <minHeadingLevel> <keepLists> <hex idPrefix> <hex title> d=<layout doc>`
* `c12.lchunks <max> <min> <minHeadingLevel> <keepLists> <hex idPrefix> <hex title> low=<hex,…> d=<layout doc without sentence pieces>`
  — the same with `splitIntoSentences` computed by the model (`sent.go: layoutWireS`)
* `c12.chunkc <unit>:<max>:<tpcNum>/<tpcDen>:<sem> d=<doc>` or `c12.chunkc preset=<name> d=<doc>` — element-based
  chunker with the splitter computed by the model of C13 (`Model/ChunkSplit.lean`); `<doc>` as for `c12.chunk`
* `c12.preset <name>` — the size preset as the model has it; reply `<unit>:<max>:<tpcNum>/<tpcDen>:<sem>`
* `c12.usp <currentLevel> <level>=<hex>,…` — a sequence of `updateSectionPath` calls starting from the empty path;
  reply: after every call `<path: hex+hex… or ~>@<currentLevel>`, joined by `;` (`none` for no call)
* `c12.addpage <n>,<n>,…` — `Document.AddPage` on pages with these `Number` fields; reply: the numbers assigned
* `c12.lcfg <name>` — the configuration a named constructor hands to `Chunk`; reply `<max> <min> <minHeadingLevel> <keepLists> <hex idPrefix>`
* `c12.lchunka …` — arguments of `c12.lchunks`; `Chunker.Chunk` with `FindAtomicBlocks` / `GetAtomicBlockAt` and the
  index-driven loop (`Model/ChunkAtomic.lean: chunkAt`)
* `c12.atomic <keepLists> <elems>` — elems = `h`, `p`, `p!` (paragraph accepted by `isListIntro`), `l` joined by `,`;
  reply `<start>-<end>,…|<block at 0>,<block at 1>,…` (`~` = no block), the result of `FindAtomicBlocks` and of
  `GetAtomicBlockAt` for every index
* `c12.sents low=<hex,…> <hex text>` — `splitIntoSentences`; reply `<hex>+<hex>…` or `none`
* `c12.chunkx <size cfg as for c12.chunkc> d=<doc>` — element-based chunker, the metadata beyond the statement's fields
  (`Model/ChunkMeta.lean`); reply per chunk `<idx>,<hex SectionTitle>,<HeadingLevel>,<Level>,<hex ElementTypes[0]>,<HasTable><HasList><HasImage>,<CharCount>,<WordCount>,<EstimatedTokens>` joined by `;`
* `c12.intro <hex text>` — `BoundaryDetector.isListIntro` with the default patterns (`Model/ChunkIntro.lean`); reply `0`/`1`
* `c12.lchunki …` — arguments of `c12.lchunks`; the `!` flags of the wire are ignored, `isListIntro` is computed by the model (`chunkSI`)
* `c12.query <size cfg> d=<doc> q=<step>,…` — a history of reads on the collection `ChunkDocumentWithConfig` returns
  (`Model/ChunkColl.lean`); step = `<target>:<call>`, target 0 = the chunker's collection, k = the result of the k-th query;
  call = `pg.<p>` `pr.<a>.<b>` `sec.<hex>` `et.<hex>` `wt` `wl` `wi` `mint.<n>` `maxt.<n>` `s.<hex>` `mod.<m>.<k>` `ge.<n>` `sl.<a>.<b>`
  (queries) `gi.<i>` `gid.<hex>` `first` `last` `count` `prange` `secs` `tok` (reads); reply per step, joined by `|`:
  `c<idx>+<idx>…` (`c~` empty) / `k<idx>` (`knil`) / `n<int>` / `p<a>:<b>` / `s<hex>+<hex>…` (`s~`)
* `c12.mdoc <size cfg> <max> <min> <minHeadingLevel> <keepLists> <hex idPrefix> low=<hex,…> t=<hex title> m=<document|nil>` — one
  `model.Document` (`Model/ChunkDoc.lean`) through both public entry points; document = `<page>/…`, page =
  `<number>#<elem>|…#<~ | H…|…:P…|…:L…|…>` (elements as in `c12.chunk`, layout entries as in `c12.lchunks`, flags ignored);
  reply `<chunks of ChunkDocumentWithConfig>#<chunks of Chunker.Chunk | err>`
* `c12.lchunkx …` — arguments of `c12.lchunks`; the metadata of `Chunker.Chunk`'s chunks beyond the statement's fields
  (`Model/ChunkLayoutX.lean`, sentences and introductions by the model); reply per chunk
  `<idx>,<hex SectionTitle>,<HeadingLevel>,<Level>,<ElementTypes hex+hex…|~>,<HasList>,<CharCount>,<WordCount>,<EstimatedTokens>,<hex TextWithContext>` joined by `;`
* `c12.lquery <max> <min> <minHeadingLevel> <keepLists> <hex idPrefix> <hex title> low=<hex,…> d=<layout doc> q=<step>,…` — the same on
  `NewChunkCollection(chunker.Chunk(doc).Chunks)`

Reply: `<idx>,<hex id>,<total>,<pageStart>,<pageEnd>,<hex+hex…|~>,<hex text>` joined by `;`, or `none`.
-/
namespace Tabula.C12H
open Tabula Tabula.Chunk

def toStr (b : Bytes) : Str := b.map (·.toNat)
def ofStr (s : Str) : Bytes := s.map UInt8.ofNat
def hexS (s : Str) : String := hex (ofStr s)
def unhexS (s : String) : Option Str := (unhex s).map toStr

def splitNE (s : String) (sep : String) : List String :=
  if s == "" then [] else s.splitOn sep

def parseLevelHex (s : String) : Option (Int × Str) :=
  match s.splitOn "=" with
  | [l, h] => do
    let l ← l.toInt?
    let h ← unhexS h
    pure (l, h)
  | _ => none

/-- pieces of a text: `<start>.<len>` (substring) or `x<hex>` -/
def parsePiece (text : Str) (s : String) : Option Str :=
  if s.startsWith "x" then unhexS (s.drop 1).toString
  else match s.splitOn "." with
    | [a, b] => do
      let a ← a.toNat?
      let b ← b.toNat?
      pure ((text.drop a).take b)
    | _ => none

def parsePieces (text : Str) (s : String) : Option (List Str) :=
  (splitNE s "+").mapM (parsePiece text)

def parseSplitEntry (s : String) : Option (Str × List Str) :=
  match s.splitOn ":" with
  | [t, ps] => do
    let t ← unhexS t
    let ps ← parsePieces t ps
    pure (t, ps)
  | _ => none

def parseRow (s : String) : Option (List Str) :=
  if s.startsWith "r" then (splitNE (s.drop 1).toString ",").mapM unhexS else none

def parseElem (s : String) : Option Elem :=
  match s.splitOn "." with
  | ["h", l, t] => do
    let l ← l.toInt?
    let t ← unhexS t
    pure (.heading l t)
  | ["p", t] => (unhexS t).map .para
  | ["l", o, items] => do
    let its ← (splitNE items ",").mapM parseLevelHex
    pure (.list (o == "o") its)
  | ["t", rows] => do
    let rs ← (splitNE rows ";").mapM parseRow
    pure (.table rs)
  | ["i", t] => (unhexS t).map .image
  | _ => none

def parsePage (s : String) : Option Page :=
  match s.splitOn ":" with
  | [n, lay, es] => do
    let n ← n.toInt?
    let lay ← if lay == "~" then some none else ((splitNE lay ",").mapM parseLevelHex).map some
    let es ← (splitNE es "|").mapM parseElem
    pure ⟨n, lay, es⟩
  | _ => none

def dumpChunk (c : Chunk) : String :=
  let path := if c.path.isEmpty then "~" else "+".intercalate (c.path.map hexS)
  s!"{c.idx},{hexS c.id},{c.total},{c.pageStart},{c.pageEnd},{path},{hexS c.text}"

def dumpChunks (cs : List Chunk) : String :=
  if cs.isEmpty then "none" else ";".intercalate (cs.map dumpChunk)

def lookupSplit (tbl : List (Str × List Str)) : Splitter := fun t =>
  (tbl.find? fun e => e.1 == t).map (·.2)

/-! layout-based chunker -/

/-- split `body[^pieces]`; the pieces index into `textOf body` -/
def withSents {α} (s : String) (parse : String → Option α) (textOf : α → Str) : Option (α × List Str) :=
  match s.splitOn "^" with
  | [a] => (parse a).map fun x => (x, [])
  | [a, ps] => do
    let x ← parse a
    let p ← parsePieces (textOf x) ps
    pure (x, p)
  | _ => none

open Tabula.ChunkLayout in
def parseLH (s : String) : Option LHeading :=
  if s.startsWith "H" then
    (withSents (s.drop 1).toString parseLevelHex (·.2)).map fun (h, ss) => ⟨h.1, h.2, ss⟩
  else none

open Tabula.ChunkLayout in
def parseLP (s : String) : Option LPara :=
  if s.startsWith "P" then
    (withSents (s.drop 1).toString
      (fun a => if a.endsWith "!" then (unhexS (a.dropEnd 1).toString).map fun t => (t, true)
                else (unhexS a).map fun t => (t, false))
      (·.1)).map fun (p, ss) => ⟨p.1, p.2, ss⟩
  else none

open Tabula.ChunkLayout in
def parseLL (s : String) : Option LList :=
  if s.startsWith "L" then
    (withSents (s.drop 1).toString (fun a => (splitNE a ",").mapM parseLevelHex) formatList).map
      fun (its, ss) => ⟨its, ss⟩
  else none

open Tabula.ChunkLayout in
def parseLPage (numbered : String) : Option LPage :=
  match numbered.splitOn "@" with
  | [n, s] => do
    let n ← n.toInt?
    if s == "~" then pure ⟨n, none⟩ else
    match s.splitOn ":" with
    | [hs, ps, ls] => do
      let hs ← (splitNE hs "|").mapM parseLH
      let ps ← (splitNE ps "|").mapM parseLP
      let ls ← (splitNE ls "|").mapM parseLL
      pure ⟨n, some ⟨hs, ps, ls⟩⟩
    | _ => none
  | _ => none

def unitOf : Nat → Option Tabula.Split.SizeUnit
  | 0 => some .characters | 1 => some .tokens | 2 => some .words
  | 3 => some .sentences | 4 => some .paragraphs | _ => none

def unitNo : Tabula.Split.SizeUnit → Nat
  | .characters => 0 | .tokens => 1 | .words => 2 | .sentences => 3 | .paragraphs => 4

def parseSizeCfg (s : String) : Option Tabula.Split.SizeConfig :=
  if s.startsWith "preset=" then ChunkSplit.preset (s.drop 7).toString else
  match s.splitOn ":" with
  | [u, m, tpc, sem] =>
    match tpc.splitOn "/" with
    | [n, d] => do
      let u ← u.toNat? >>= unitOf
      let m ← m.toNat?
      let n ← n.toInt?
      let d ← d.toNat?
      pure { maxValue := m, maxUnit := u, tpcNum := n, tpcDen := d, sem := sem == "1" }
    | _ => none
  | _ => none

def dumpSizeCfg (c : Tabula.Split.SizeConfig) : String :=
  s!"{unitNo c.maxUnit}:{c.maxValue}:{c.tpcNum}/{c.tpcDen}:{if c.sem then 1 else 0}"

def dumpPath (p : List Str) : String := if p.isEmpty then "~" else "+".intercalate (p.map hexS)

/-- the states after every call of a sequence of `updateSectionPath` calls -/
def uspTrace : List Str → Int → List (Int × Str) → List String
  | _, _, [] => []
  | path, cur, (l, t) :: hs =>
    let r := ChunkApi.updateSectionPath path cur l t
    s!"{dumpPath r.1}@{r.2}" :: uspTrace r.1 r.2 hs

/-! metadata, collection queries -/

def dumpX (x : ChunkMeta.XChunk) : String :=
  let b (v : Bool) : String := if v then "1" else "0"
  s!"{x.c.idx},{hexS x.title},{x.headingLevel},{x.level},{hexS x.elementType},{b x.hasTable}{b x.hasList}{b x.hasImage},{x.charCount},{x.wordCount},{x.estimatedTokens}"

def unhexF (s : String) : Option Str := unhexS s

open ChunkColl in
def parseCall (s : String) : Option Op :=
  match s.splitOn "." with
  | ["pg", p] => p.toInt?.map fun p => .query (.byPage p)
  | ["pr", a, b] => do
    let a ← a.toInt?
    let b ← b.toInt?
    pure (.query (.byPageRange a b))
  | ["sec", t] => (unhexF t).map fun t => .query (.bySection t)
  | ["et", t] => (unhexF t).map fun t => .query (.byElementType t)
  | ["wt"] => some (.query .withTables)
  | ["wl"] => some (.query .withLists)
  | ["wi"] => some (.query .withImages)
  | ["mint", n] => n.toInt?.map fun n => .query (.minTokens n)
  | ["maxt", n] => n.toInt?.map fun n => .query (.maxTokens n)
  | ["s", t] => (unhexF t).map fun t => .query (.search t)
  | ["mod", m, k] => do
    let m ← m.toNat?
    let k ← k.toNat?
    pure (.query (.pred fun q => q.c.idx % m == k))
  | ["ge", n] => n.toNat?.map fun n => .query (.pred fun q => decide (n ≤ q.c.idx))
  | ["sl", a, b] => do
    let a ← a.toNat?
    let b ← b.toNat?
    pure (.query (.slice a b))
  | ["gi", i] => i.toInt?.map fun i => .read (.getByIndex i)
  | ["gid", t] => (unhexF t).map fun t => .read (.getByID t)
  | ["first"] => some (.read .first)
  | ["last"] => some (.read .last)
  | ["count"] => some (.read .count)
  | ["prange"] => some (.read .pageRange)
  | ["secs"] => some (.read .sections)
  | ["tok"] => some (.read .totalTokens)
  | _ => none

open ChunkColl in
def parseStep (s : String) : Option Step :=
  match s.splitOn ":" with
  | [t, call] => do
    let t ← t.toNat?
    let op ← parseCall call
    pure ⟨t, op⟩
  | _ => none

open ChunkColl in
def dumpResult : Result → String
  | .coll cs => if cs.isEmpty then "c~" else "c" ++ "+".intercalate (cs.map fun q => toString q.c.idx)
  | .chunk none => "knil"
  | .chunk (some q) => s!"k{q.c.idx}"
  | .num n => s!"n{n}"
  | .pair a b => s!"p{a}:{b}"
  | .strs l => if l.isEmpty then "s~" else "s" ++ "+".intercalate (l.map hexS)

open ChunkColl in
def runQueryOp (base : List QChunk) (q : String) : String :=
  if !(q.startsWith "q=") then "bad-op" else
  match (splitNE (q.drop 2).toString ",").mapM parseStep with
  | some steps =>
    let rs := (runHistory base steps).2
    if rs.isEmpty then "none" else "|".intercalate (rs.map dumpResult)
  | none => "bad-op"

open ChunkDoc in
def parseMPage (s : String) : Option MPage :=
  match s.splitOn "#" with
  | [n, es, lay] => do
    let n ← n.toInt?
    let es ← (splitNE es "|").mapM parseElem
    if lay == "~" then pure ⟨n, es, none⟩ else
    match lay.splitOn ":" with
    | [hs, ps, ls] => do
      let hs ← (splitNE hs "|").mapM parseLH
      let ps ← (splitNE ps "|").mapM parseLP
      let ls ← (splitNE ls "|").mapM parseLL
      pure ⟨n, es, some ⟨hs.map fun h => (h.level, h.text), ps.map (·.text), ls.map (·.items)⟩⟩
    | _ => none
  | _ => none

def dumpLX (y : ChunkLayoutX.LXS) : String :=
  let tys := if y.x.m.types.isEmpty then "~" else "+".intercalate (y.x.m.types.map hexS)
  s!"{y.x.c.idx},{hexS y.title},{y.headingLevel},{y.x.m.level},{tys},{if y.x.m.hasList then 1 else 0},{y.charCount},{y.wordCount},{y.estimatedTokens},{hexS y.textWithContext}"

def handle (op : String) (args : List String) : String :=
  match op, args with
  | "c12.lchunkx", [mx, mn, mhl, keep, pfx, title, low, d] =>
    if !(d.startsWith "d=" && low.startsWith "low=") then "bad-op" else
    match mx.toInt?, mn.toInt?, mhl.toInt?, unhexS pfx, unhexS title,
          (splitNE (low.drop 4).toString ",").mapM unhexS,
          (splitNE (d.drop 2).toString "/").mapM parseLPage with
    | some mx, some mn, some mhl, some pfx, some title, some tbl, some doc =>
      let ys := ChunkLayoutX.chunkXSI (ChunkSent.lowOfTable tbl) ⟨mx, mn, mhl, keep == "1", pfx⟩ title doc
      if ys.isEmpty then "none" else ";".intercalate (ys.map dumpLX)
    | _, _, _, _, _, _, _ => "bad-op"
  | "c12.mdoc", [cfg, mx, mn, mhl, keep, pfx, low, t, m] =>
    if !(m.startsWith "m=" && low.startsWith "low=" && t.startsWith "t=") then "bad-op" else
    match parseSizeCfg cfg, mx.toInt?, mn.toInt?, mhl.toInt?, unhexS pfx, unhexS (t.drop 2).toString,
          (splitNE (low.drop 4).toString ",").mapM unhexS with
    | some c, some mx, some mn, some mhl, some pfx, some title, some tbl =>
      let body := (m.drop 2).toString
      let doc : Option (Option ChunkDoc.MDoc) :=
        if body == "nil" then some none
        else ((splitNE body "/").mapM parseMPage).map fun pgs => some ⟨title, pgs⟩
      match doc with
      | some md =>
        let a := dumpChunks (ChunkDoc.chunkDocumentAPI c md)
        let b := match ChunkDoc.chunkerChunkAPI (ChunkSent.lowOfTable tbl) ⟨mx, mn, mhl, keep == "1", pfx⟩ md with
          | .ok cs => dumpChunks cs
          | .error _ => "err"
        a ++ "#" ++ b
      | none => "bad-op"
    | _, _, _, _, _, _, _ => "bad-op"
  | "c12.chunkx", [cfg, d] =>
    if !(d.startsWith "d=") then "bad-op" else
    match parseSizeCfg cfg, (splitNE (d.drop 2).toString "/").mapM parsePage with
    | some c, some doc =>
      let xs := ChunkMeta.chunkDocumentXC c doc
      if xs.isEmpty then "none" else ";".intercalate (xs.map dumpX)
    | _, _ => "bad-op"
  | "c12.intro", [t] =>
    match unhexS t with
    | some t => if ChunkIntro.isListIntro t then "1" else "0"
    | none => "bad-op"
  | "c12.query", [cfg, d, q] =>
    if !(d.startsWith "d=") then "bad-op" else
    match parseSizeCfg cfg, (splitNE (d.drop 2).toString "/").mapM parsePage with
    | some c, some doc => runQueryOp (ChunkColl.elementColl c doc) q
    | _, _ => "bad-op"
  | "c12.lquery", [mx, mn, mhl, keep, pfx, title, low, d, q] =>
    if !(d.startsWith "d=" && low.startsWith "low=") then "bad-op" else
    match mx.toInt?, mn.toInt?, mhl.toInt?, unhexS pfx, unhexS title,
          (splitNE (low.drop 4).toString ",").mapM unhexS,
          (splitNE (d.drop 2).toString "/").mapM parseLPage with
    | some mx, some mn, some mhl, some pfx, some title, some tbl, some doc =>
      runQueryOp (ChunkColl.layoutColl (ChunkSent.lowOfTable tbl) ⟨mx, mn, mhl, keep == "1", pfx⟩ title
        (ChunkIntro.withIntro doc)) q
    | _, _, _, _, _, _, _ => "bad-op"
  | "c12.lchunki", [mx, mn, mhl, keep, pfx, title, low, d] =>
    if !(d.startsWith "d=" && low.startsWith "low=") then "bad-op" else
    match mx.toInt?, mn.toInt?, mhl.toInt?, unhexS pfx, unhexS title,
          (splitNE (low.drop 4).toString ",").mapM unhexS,
          (splitNE (d.drop 2).toString "/").mapM parseLPage with
    | some mx, some mn, some mhl, some pfx, some title, some tbl, some doc =>
      dumpChunks (ChunkIntro.chunkSI (ChunkSent.lowOfTable tbl) ⟨mx, mn, mhl, keep == "1", pfx⟩ title doc)
    | _, _, _, _, _, _, _ => "bad-op"
  | "c12.usp", [c0, hs] =>
    match c0.toInt?, (splitNE (if hs == "-" then "" else hs) ",").mapM parseLevelHex with
    | some c0, some hs => if hs.isEmpty then "none" else ";".intercalate (uspTrace [] c0 hs)
    | _, _ => "bad-op"
  | "c12.addpage", [ns] =>
    match (splitNE (if ns == "-" then "" else ns) ",").mapM String.toInt? with
    | some ns => ",".intercalate ((ChunkApi.addPages [] ns).map toString)
    | none => "bad-op"
  | "c12.lcfg", [name] =>
    match ChunkApi.namedCfg name with
    | some c => s!"{c.maxSize} {c.minSize} {c.minHeadingLevel} {if c.keepLists then 1 else 0} {hexS c.idPrefix}"
    | none => "bad-op"
  | "c12.chunkc", [cfg, d] =>
    if !(d.startsWith "d=") then "bad-op" else
    match parseSizeCfg cfg, (splitNE (d.drop 2).toString "/").mapM parsePage with
    | some c, some doc => dumpChunks (ChunkSplit.chunkDocumentC c doc)
    | _, _ => "bad-op"
  | "c12.preset", [name] =>
    match ChunkSplit.preset name with
    | some c => dumpSizeCfg c
    | none => "bad-op"
  | "c12.chunk", [s, d] =>
    if !(s.startsWith "s=" && d.startsWith "d=") then "bad-op" else
    match (splitNE (s.drop 2).toString ",").mapM parseSplitEntry,
          (splitNE (d.drop 2).toString "/").mapM parsePage with
    | some tbl, some doc => dumpChunks (chunkDocument (lookupSplit tbl) doc)
    | _, _ => "bad-op"
  | "c12.lchunk", [mx, mn, mhl, keep, pfx, title, d] =>
    if !(d.startsWith "d=") then "bad-op" else
    match mx.toInt?, mn.toInt?, mhl.toInt?, unhexS pfx, unhexS title,
          (splitNE (d.drop 2).toString "/").mapM parseLPage with
    | some mx, some mn, some mhl, some pfx, some title, some doc =>
      dumpChunks (ChunkLayout.chunk ⟨mx, mn, mhl, keep == "1", pfx⟩ title doc)
    | _, _, _, _, _, _ => "bad-op"
  | "c12.lchunks", [mx, mn, mhl, keep, pfx, title, low, d] =>
    if !(d.startsWith "d=" && low.startsWith "low=") then "bad-op" else
    match mx.toInt?, mn.toInt?, mhl.toInt?, unhexS pfx, unhexS title,
          (splitNE (low.drop 4).toString ",").mapM unhexS,
          (splitNE (d.drop 2).toString "/").mapM parseLPage with
    | some mx, some mn, some mhl, some pfx, some title, some tbl, some doc =>
      dumpChunks (ChunkSent.chunkS (ChunkSent.lowOfTable tbl) ⟨mx, mn, mhl, keep == "1", pfx⟩ title doc)
    | _, _, _, _, _, _, _ => "bad-op"
  | "c12.lchunka", [mx, mn, mhl, keep, pfx, title, low, d] =>
    if !(d.startsWith "d=" && low.startsWith "low=") then "bad-op" else
    match mx.toInt?, mn.toInt?, mhl.toInt?, unhexS pfx, unhexS title,
          (splitNE (low.drop 4).toString ",").mapM unhexS,
          (splitNE (d.drop 2).toString "/").mapM parseLPage with
    | some mx, some mn, some mhl, some pfx, some title, some tbl, some doc =>
      dumpChunks (ChunkAtomic.chunkAt ⟨mx, mn, mhl, keep == "1", pfx⟩ title
        (ChunkSent.withSents (ChunkSent.lowOfTable tbl) doc))
    | _, _, _, _, _, _, _ => "bad-op"
  | "c12.atomic", [keep, es] =>
    let parseE (s : String) : Option ChunkLayout.CE :=
      match s with
      | "h" => some ⟨.heading, [], 0, false, []⟩
      | "p" => some ⟨.para, [], 0, false, []⟩
      | "p!" => some ⟨.para, [], 0, true, []⟩
      | "l" => some ⟨.list, [], 0, false, []⟩
      | _ => none
    match (splitNE (if es == "-" then "" else es) ",").mapM parseE with
    | some content =>
      let blocks := ChunkAtomic.findAtomicBlocks (keep == "1") content
      let showB (b : ChunkAtomic.Block) : String := s!"{b.1}-{b.2}"
      let at_ := (List.range content.length).map fun i =>
        match ChunkAtomic.getAtomicBlockAt i blocks with
        | some b => showB b
        | none => "~"
      ",".intercalate (blocks.map showB) ++ "|" ++ ",".intercalate at_
    | none => "bad-op"
  | "c12.sents", [low, t] =>
    if !(low.startsWith "low=") then "bad-op" else
    match (splitNE (low.drop 4).toString ",").mapM unhexS, unhexS t with
    | some tbl, some t =>
      let ss := ChunkSent.splitIntoSentences (ChunkSent.lowOfTable tbl) t
      if ss.isEmpty then "none" else "+".intercalate (ss.map hexS)
    | _, _ => "bad-op"
  | _, _ => "bad-op"

end Tabula.C12H
