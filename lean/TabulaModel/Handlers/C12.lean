import TabulaModel.Util
import TabulaModel.Model.Chunk
import TabulaModel.Model.ChunkLayout
import TabulaModel.Model.ChunkSent
import TabulaModel.Model.ChunkSplit
import TabulaModel.Model.ChunkApi
import TabulaModel.Model.ChunkAtomic
/-!
Line protocol of C12 (see `harness/c12/gen.go: docWire`, `layout.go: layoutWire`).

* `c12.chunk s=<split table> d=<doc>` — element-based chunker
* `c12.lchunk <max> <min> <minHeadingLevel> <keepLists> <hex idPrefix> <hex title> d=<layout doc>`
* `c12.lchunks <max> <min> <minHeadingLevel> <keepLists> <hex idPrefix> <hex title> low=<hex,…> d=<layout doc without sentence pieces>`
  — the same with `splitIntoSentences` computed by the model (`sent.go: layoutWireS`)
* `c12.chunkc <unit>:<max>:<tpcNum>/<tpcDen>:<sem> d=<doc>` or `c12.chunkc preset=<name> d=<doc>` — element-based
  chunker with the splitter computed by the model of C13 (`Model/ChunkSplit.lean`); `<doc>` as for `c12.chunk`
* `c12.preset <name>` — the size preset as the model has it; reply `<unit>:<max>:<tpcNum>/<tpcDen>:<sem>`
* `c12.usp <currentLevel> <level>=<hex>,…` — a sequence of `updateSectionPath` calls starting from the empty path;
  reply: after every call `<path: hex+hex… or ~>@<currentLevel>`, joined by `;` (`none` for no call)
* `c12.addpage <n>,<n>,…` — `Document.AddPage` on pages with these `Number` fields; reply: the numbers assigned
* `c12.lcfg <name>` — the configuration a named constructor hands to `Chunk`; reply `<max> <min> <minHeadingLevel> <keepLists> <hex idPrefix>`
* `c12.lchunka …` — arguments of `c12.lchunks`; `Chunker.Chunk` with `FindAtomicBlocks` / `GetAtomicBlockAt` and the
  index-driven loop (`Model/ChunkAtomic.lean: chunkAt`)
* `c12.atomic <keepLists> <elems>` — elems = `h`, `p`, `p!` (paragraph accepted by `isListIntro`), `l` joined by `,`;
  reply `<start>-<end>,…|<block at 0>,<block at 1>,…` (`~` = no block), the result of `FindAtomicBlocks` and of
  `GetAtomicBlockAt` for every index
* `c12.sents low=<hex,…> <hex text>` — `splitIntoSentences`; reply `<hex>+<hex>…` or `none`

Reply: `<idx>,<hex id>,<total>,<pageStart>,<pageEnd>,<hex+hex…|~>,<hex text>` joined by `;`, or `none`.
-/
namespace Tabula.C12H
open Tabula Tabula.Chunk

def toStr (b : Bytes) : Str := b.map (·.toNat)
def ofStr (s : Str) : Bytes := s.map UInt8.ofNat
def hexS (s : Str) : String := hex (ofStr s)
def unhexS (s : String) : Option Str := (unhex s).map toStr

def splitNE (s : String) (sep : String) : List String :=
  if s == "" then [] else s.splitOn sep

def parseLevelHex (s : String) : Option (Int × Str) :=
  match s.splitOn "=" with
  | [l, h] => do
    let l ← l.toInt?
    let h ← unhexS h
    pure (l, h)
  | _ => none

/-- pieces of a text: `<start>.<len>` (substring) or `x<hex>` -/
def parsePiece (text : Str) (s : String) : Option Str :=
  if s.startsWith "x" then unhexS (s.drop 1).toString
  else match s.splitOn "." with
    | [a, b] => do
      let a ← a.toNat?
      let b ← b.toNat?
      pure ((text.drop a).take b)
    | _ => none

def parsePieces (text : Str) (s : String) : Option (List Str) :=
  (splitNE s "+").mapM (parsePiece text)

def parseSplitEntry (s : String) : Option (Str × List Str) :=
  match s.splitOn ":" with
  | [t, ps] => do
    let t ← unhexS t
    let ps ← parsePieces t ps
    pure (t, ps)
  | _ => none

def parseRow (s : String) : Option (List Str) :=
  if s.startsWith "r" then (splitNE (s.drop 1).toString ",").mapM unhexS else none

def parseElem (s : String) : Option Elem :=
  match s.splitOn "." with
  | ["h", l, t] => do
    let l ← l.toInt?
    let t ← unhexS t
    pure (.heading l t)
  | ["p", t] => (unhexS t).map .para
  | ["l", o, items] => do
    let its ← (splitNE items ",").mapM parseLevelHex
    pure (.list (o == "o") its)
  | ["t", rows] => do
    let rs ← (splitNE rows ";").mapM parseRow
    pure (.table rs)
  | ["i", t] => (unhexS t).map .image
  | _ => none

def parsePage (s : String) : Option Page :=
  match s.splitOn ":" with
  | [n, lay, es] => do
    let n ← n.toInt?
    let lay ← if lay == "~" then some none else ((splitNE lay ",").mapM parseLevelHex).map some
    let es ← (splitNE es "|").mapM parseElem
    pure ⟨n, lay, es⟩
  | _ => none

def dumpChunk (c : Chunk) : String :=
  let path := if c.path.isEmpty then "~" else "+".intercalate (c.path.map hexS)
  s!"{c.idx},{hexS c.id},{c.total},{c.pageStart},{c.pageEnd},{path},{hexS c.text}"

def dumpChunks (cs : List Chunk) : String :=
  if cs.isEmpty then "none" else ";".intercalate (cs.map dumpChunk)

def lookupSplit (tbl : List (Str × List Str)) : Splitter := fun t =>
  (tbl.find? fun e => e.1 == t).map (·.2)

/-! layout-based chunker -/

/-- split `body[^pieces]`; the pieces index into `textOf body` -/
def withSents {α} (s : String) (parse : String → Option α) (textOf : α → Str) : Option (α × List Str) :=
  match s.splitOn "^" with
  | [a] => (parse a).map fun x => (x, [])
  | [a, ps] => do
    let x ← parse a
    let p ← parsePieces (textOf x) ps
    pure (x, p)
  | _ => none

open Tabula.ChunkLayout in
def parseLH (s : String) : Option LHeading :=
  if s.startsWith "H" then
    (withSents (s.drop 1).toString parseLevelHex (·.2)).map fun (h, ss) => ⟨h.1, h.2, ss⟩
  else none

open Tabula.ChunkLayout in
def parseLP (s : String) : Option LPara :=
  if s.startsWith "P" then
    (withSents (s.drop 1).toString
      (fun a => if a.endsWith "!" then (unhexS (a.dropEnd 1).toString).map fun t => (t, true)
                else (unhexS a).map fun t => (t, false))
      (·.1)).map fun (p, ss) => ⟨p.1, p.2, ss⟩
  else none

open Tabula.ChunkLayout in
def parseLL (s : String) : Option LList :=
  if s.startsWith "L" then
    (withSents (s.drop 1).toString (fun a => (splitNE a ",").mapM parseLevelHex) formatList).map
      fun (its, ss) => ⟨its, ss⟩
  else none

open Tabula.ChunkLayout in
def parseLPage (numbered : String) : Option LPage :=
  match numbered.splitOn "@" with
  | [n, s] => do
    let n ← n.toInt?
    if s == "~" then pure ⟨n, none⟩ else
    match s.splitOn ":" with
    | [hs, ps, ls] => do
      let hs ← (splitNE hs "|").mapM parseLH
      let ps ← (splitNE ps "|").mapM parseLP
      let ls ← (splitNE ls "|").mapM parseLL
      pure ⟨n, some ⟨hs, ps, ls⟩⟩
    | _ => none
  | _ => none

def unitOf : Nat → Option Tabula.Split.SizeUnit
  | 0 => some .characters | 1 => some .tokens | 2 => some .words
  | 3 => some .sentences | 4 => some .paragraphs | _ => none

def unitNo : Tabula.Split.SizeUnit → Nat
  | .characters => 0 | .tokens => 1 | .words => 2 | .sentences => 3 | .paragraphs => 4

def parseSizeCfg (s : String) : Option Tabula.Split.SizeConfig :=
  if s.startsWith "preset=" then ChunkSplit.preset (s.drop 7).toString else
  match s.splitOn ":" with
  | [u, m, tpc, sem] =>
    match tpc.splitOn "/" with
    | [n, d] => do
      let u ← u.toNat? >>= unitOf
      let m ← m.toNat?
      let n ← n.toInt?
      let d ← d.toNat?
      pure { maxValue := m, maxUnit := u, tpcNum := n, tpcDen := d, sem := sem == "1" }
    | _ => none
  | _ => none

def dumpSizeCfg (c : Tabula.Split.SizeConfig) : String :=
  s!"{unitNo c.maxUnit}:{c.maxValue}:{c.tpcNum}/{c.tpcDen}:{if c.sem then 1 else 0}"

def dumpPath (p : List Str) : String := if p.isEmpty then "~" else "+".intercalate (p.map hexS)

/-- the states after every call of a sequence of `updateSectionPath` calls -/
def uspTrace : List Str → Int → List (Int × Str) → List String
  | _, _, [] => []
  | path, cur, (l, t) :: hs =>
    let r := ChunkApi.updateSectionPath path cur l t
    s!"{dumpPath r.1}@{r.2}" :: uspTrace r.1 r.2 hs

def handle (op : String) (args : List String) : String :=
  match op, args with
  | "c12.usp", [c0, hs] =>
    match c0.toInt?, (splitNE (if hs == "-" then "" else hs) ",").mapM parseLevelHex with
    | some c0, some hs => if hs.isEmpty then "none" else ";".intercalate (uspTrace [] c0 hs)
    | _, _ => "bad-op"
  | "c12.addpage", [ns] =>
    match (splitNE (if ns == "-" then "" else ns) ",").mapM String.toInt? with
    | some ns => ",".intercalate ((ChunkApi.addPages [] ns).map toString)
    | none => "bad-op"
  | "c12.lcfg", [name] =>
    match ChunkApi.namedCfg name with
    | some c => s!"{c.maxSize} {c.minSize} {c.minHeadingLevel} {if c.keepLists then 1 else 0} {hexS c.idPrefix}"
    | none => "bad-op"
  | "c12.chunkc", [cfg, d] =>
    if !(d.startsWith "d=") then "bad-op" else
    match parseSizeCfg cfg, (splitNE (d.drop 2).toString "/").mapM parsePage with
    | some c, some doc => dumpChunks (ChunkSplit.chunkDocumentC c doc)
    | _, _ => "bad-op"
  | "c12.preset", [name] =>
    match ChunkSplit.preset name with
    | some c => dumpSizeCfg c
    | none => "bad-op"
  | "c12.chunk", [s, d] =>
    if !(s.startsWith "s=" && d.startsWith "d=") then "bad-op" else
    match (splitNE (s.drop 2).toString ",").mapM parseSplitEntry,
          (splitNE (d.drop 2).toString "/").mapM parsePage with
    | some tbl, some doc => dumpChunks (chunkDocument (lookupSplit tbl) doc)
    | _, _ => "bad-op"
  | "c12.lchunk", [mx, mn, mhl, keep, pfx, title, d] =>
    if !(d.startsWith "d=") then "bad-op" else
    match mx.toInt?, mn.toInt?, mhl.toInt?, unhexS pfx, unhexS title,
          (splitNE (d.drop 2).toString "/").mapM parseLPage with
    | some mx, some mn, some mhl, some pfx, some title, some doc =>
      dumpChunks (ChunkLayout.chunk ⟨mx, mn, mhl, keep == "1", pfx⟩ title doc)
    | _, _, _, _, _, _ => "bad-op"
  | "c12.lchunks", [mx, mn, mhl, keep, pfx, title, low, d] =>
    if !(d.startsWith "d=" && low.startsWith "low=") then "bad-op" else
    match mx.toInt?, mn.toInt?, mhl.toInt?, unhexS pfx, unhexS title,
          (splitNE (low.drop 4).toString ",").mapM unhexS,
          (splitNE (d.drop 2).toString "/").mapM parseLPage with
    | some mx, some mn, some mhl, some pfx, some title, some tbl, some doc =>
      dumpChunks (ChunkSent.chunkS (ChunkSent.lowOfTable tbl) ⟨mx, mn, mhl, keep == "1", pfx⟩ title doc)
    | _, _, _, _, _, _, _ => "bad-op"
  | "c12.lchunka", [mx, mn, mhl, keep, pfx, title, low, d] =>
    if !(d.startsWith "d=" && low.startsWith "low=") then "bad-op" else
    match mx.toInt?, mn.toInt?, mhl.toInt?, unhexS pfx, unhexS title,
          (splitNE (low.drop 4).toString ",").mapM unhexS,
          (splitNE (d.drop 2).toString "/").mapM parseLPage with
    | some mx, some mn, some mhl, some pfx, some title, some tbl, some doc =>
      dumpChunks (ChunkAtomic.chunkAt ⟨mx, mn, mhl, keep == "1", pfx⟩ title
        (ChunkSent.withSents (ChunkSent.lowOfTable tbl) doc))
    | _, _, _, _, _, _, _ => "bad-op"
  | "c12.atomic", [keep, es] =>
    let parseE (s : String) : Option ChunkLayout.CE :=
      match s with
      | "h" => some ⟨.heading, [], 0, false, []⟩
      | "p" => some ⟨.para, [], 0, false, []⟩
      | "p!" => some ⟨.para, [], 0, true, []⟩
      | "l" => some ⟨.list, [], 0, false, []⟩
      | _ => none
    match (splitNE (if es == "-" then "" else es) ",").mapM parseE with
    | some content =>
      let blocks := ChunkAtomic.findAtomicBlocks (keep == "1") content
      let showB (b : ChunkAtomic.Block) : String := s!"{b.1}-{b.2}"
      let at_ := (List.range content.length).map fun i =>
        match ChunkAtomic.getAtomicBlockAt i blocks with
        | some b => showB b
        | none => "~"
      ",".intercalate (blocks.map showB) ++ "|" ++ ",".intercalate at_
    | none => "bad-op"
  | "c12.sents", [low, t] =>
    if !(low.startsWith "low=") then "bad-op" else
    match (splitNE (low.drop 4).toString ",").mapM unhexS, unhexS t with
    | some tbl, some t =>
      let ss := ChunkSent.splitIntoSentences (ChunkSent.lowOfTable tbl) t
      if ss.isEmpty then "none" else "+".intercalate (ss.map hexS)
    | _, _ => "bad-op"
  | _, _ => "bad-op"

end Tabula.C12H
