import TabulaModel.Util
import TabulaModel.Model.Chunk
import TabulaModel.Model.ChunkLayout
/-!
Line protocol of C12 (see `harness/c12/gen.go: docWire`, `layout.go: layoutWire`).

* `c12.chunk s=<split table> d=<doc>` — element-based chunker
* `c12.lchunk <max> <min> <minHeadingLevel> <keepLists> <hex idPrefix> <hex title> d=<layout doc>`

Reply: `<idx>,<hex id>,<total>,<pageStart>,<pageEnd>,<hex+hex…|~>,<hex text>` joined by `;`, or `none`.
-/
namespace Tabula.C12H
open Tabula Tabula.Chunk

def toStr (b : Bytes) : Str := b.map (·.toNat)
def ofStr (s : Str) : Bytes := s.map UInt8.ofNat
def hexS (s : Str) : String := hex (ofStr s)
def unhexS (s : String) : Option Str := (unhex s).map toStr

def splitNE (s : String) (sep : String) : List String :=
  if s == "" then [] else s.splitOn sep

def parseLevelHex (s : String) : Option (Int × Str) :=
  match s.splitOn "=" with
  | [l, h] => do
    let l ← l.toInt?
    let h ← unhexS h
    pure (l, h)
  | _ => none

/-- pieces of a text: `<start>.<len>` (substring) or `x<hex>` -/
def parsePiece (text : Str) (s : String) : Option Str :=
  if s.startsWith "x" then unhexS (s.drop 1).toString
  else match s.splitOn "." with
    | [a, b] => do
      let a ← a.toNat?
      let b ← b.toNat?
      pure ((text.drop a).take b)
    | _ => none

def parsePieces (text : Str) (s : String) : Option (List Str) :=
  (splitNE s "+").mapM (parsePiece text)

def parseSplitEntry (s : String) : Option (Str × List Str) :=
  match s.splitOn ":" with
  | [t, ps] => do
    let t ← unhexS t
    let ps ← parsePieces t ps
    pure (t, ps)
  | _ => none

def parseRow (s : String) : Option (List Str) :=
  if s.startsWith "r" then (splitNE (s.drop 1).toString ",").mapM unhexS else none

def parseElem (s : String) : Option Elem :=
  match s.splitOn "." with
  | ["h", l, t] => do
    let l ← l.toInt?
    let t ← unhexS t
    pure (.heading l t)
  | ["p", t] => (unhexS t).map .para
  | ["l", o, items] => do
    let its ← (splitNE items ",").mapM parseLevelHex
    pure (.list (o == "o") its)
  | ["t", rows] => do
    let rs ← (splitNE rows ";").mapM parseRow
    pure (.table rs)
  | ["i", t] => (unhexS t).map .image
  | _ => none

def parsePage (s : String) : Option Page :=
  match s.splitOn ":" with
  | [n, lay, es] => do
    let n ← n.toInt?
    let lay ← if lay == "~" then some none else ((splitNE lay ",").mapM parseLevelHex).map some
    let es ← (splitNE es "|").mapM parseElem
    pure ⟨n, lay, es⟩
  | _ => none

def dumpChunk (c : Chunk) : String :=
  let path := if c.path.isEmpty then "~" else "+".intercalate (c.path.map hexS)
  s!"{c.idx},{hexS c.id},{c.total},{c.pageStart},{c.pageEnd},{path},{hexS c.text}"

def dumpChunks (cs : List Chunk) : String :=
  if cs.isEmpty then "none" else ";".intercalate (cs.map dumpChunk)

def lookupSplit (tbl : List (Str × List Str)) : Splitter := fun t =>
  (tbl.find? fun e => e.1 == t).map (·.2)

/-! layout-based chunker -/

/-- split `body[^pieces]`; the pieces index into `textOf body` -/
def withSents {α} (s : String) (parse : String → Option α) (textOf : α → Str) : Option (α × List Str) :=
  match s.splitOn "^" with
  | [a] => (parse a).map fun x => (x, [])
  | [a, ps] => do
    let x ← parse a
    let p ← parsePieces (textOf x) ps
    pure (x, p)
  | _ => none

open Tabula.ChunkLayout in
def parseLH (s : String) : Option LHeading :=
  if s.startsWith "H" then
    (withSents (s.drop 1).toString parseLevelHex (·.2)).map fun (h, ss) => ⟨h.1, h.2, ss⟩
  else none

open Tabula.ChunkLayout in
def parseLP (s : String) : Option LPara :=
  if s.startsWith "P" then
    (withSents (s.drop 1).toString
      (fun a => if a.endsWith "!" then (unhexS (a.dropEnd 1).toString).map fun t => (t, true)
                else (unhexS a).map fun t => (t, false))
      (·.1)).map fun (p, ss) => ⟨p.1, p.2, ss⟩
  else none

open Tabula.ChunkLayout in
def parseLL (s : String) : Option LList :=
  if s.startsWith "L" then
    (withSents (s.drop 1).toString (fun a => (splitNE a ",").mapM parseLevelHex) formatList).map
      fun (its, ss) => ⟨its, ss⟩
  else none

open Tabula.ChunkLayout in
def parseLPage (numbered : String) : Option LPage :=
  match numbered.splitOn "@" with
  | [n, s] => do
    let n ← n.toInt?
    if s == "~" then pure ⟨n, none⟩ else
    match s.splitOn ":" with
    | [hs, ps, ls] => do
      let hs ← (splitNE hs "|").mapM parseLH
      let ps ← (splitNE ps "|").mapM parseLP
      let ls ← (splitNE ls "|").mapM parseLL
      pure ⟨n, some ⟨hs, ps, ls⟩⟩
    | _ => none
  | _ => none

def handle (op : String) (args : List String) : String :=
  match op, args with
  | "c12.chunk", [s, d] =>
    if !(s.startsWith "s=" && d.startsWith "d=") then "bad-op" else
    match (splitNE (s.drop 2).toString ",").mapM parseSplitEntry,
          (splitNE (d.drop 2).toString "/").mapM parsePage with
    | some tbl, some doc => dumpChunks (chunkDocument (lookupSplit tbl) doc)
    | _, _ => "bad-op"
  | "c12.lchunk", [mx, mn, mhl, keep, pfx, title, d] =>
    if !(d.startsWith "d=") then "bad-op" else
    match mx.toInt?, mn.toInt?, mhl.toInt?, unhexS pfx, unhexS title,
          (splitNE (d.drop 2).toString "/").mapM parseLPage with
    | some mx, some mn, some mhl, some pfx, some title, some doc =>
      dumpChunks (ChunkLayout.chunk ⟨mx, mn, mhl, keep == "1", pfx⟩ title doc)
    | _, _, _, _, _, _ => "bad-op"
  | _, _ => "bad-op"

end Tabula.C12H
