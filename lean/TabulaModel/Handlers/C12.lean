import TabulaModel.Util
namespace Tabula.C12H

def handle (_op : String) (_args : List String) : String := "bad-op"

end Tabula.C12H
