import TabulaModel.Util
namespace Tabula.C01H

def handle (_op : String) (_args : List String) : String := "bad-op"

end Tabula.C01H
