import TabulaModel.Util
import TabulaModel.Model.PdfDoc
import TabulaModel.Model.Reader
import TabulaModel.Model.ReadBytes
/-!
Line protocol of C01 (bytes are lower-case hex, `-` = empty):

* `c01.ptree <tree>` — the page-tree walk with its depth limit (`PdfDoc.traverse 0`): the
  flattened leaves, or `err` for a tree of more than 10000 levels
* `c01.join <parts>` — content join (`PdfDoc.joinContents`)
* `c01.joinfit <lengths>` — the 64 MiB limit of the content join on the decoded lengths of a
  page's content streams, `,`-separated (`PdfDoc.fitsLoop 0`): `ok` or `err`
* `c01.read <start> <sections> <objects> <inflate> <nfc>` — the end-to-end reader model
  (`Reader.readPages`) on an abstract file:
  - `start`    decimal offset after the last `startxref`
  - `sections` `;`-separated, in file order: `<offset>/<prev|~>/<root|~>/<entries>` with entries
               `,`-separated in the order written (`-` = none): `<num>f<next>` free, `<num>n<offset>`
               in use, `<num>c<stm>.<idx>` compressed; `root` = object number named by the
               trailer's `/Root`
  - `objects`  `;`-separated, in file order: `<offset>/<num>/p/<body>` (plain object) or
               `<offset>/<num>/s/<dict>/<data>` (stream: dictionary text, raw data)
  - `inflate`  `_` or `<in>><out>;…` — zlib's answers (`<out>` = hex or `!`)
  - `nfc`      `~` or `<pre>><post>;…` — x/text NFC's answers, scalars as `,`-separated hex
  reply: `ok n=<pages> <page>|<page>…` (`-` when there is no page); a page is its strings
  separated by `,` (`~` = no string); a string is its scalar values in hex separated by `.`
  (`-` = empty); or `err` / `unsupported` / `fuel`.
* `c01.readbytes <file> <inflate> <nfc>` — the reader model on the BYTES of the file
  (`ReadBytes.readBytes`: C04's byte-level `openFile` / `getObjectB` under `Reader.readWith`);
  `file` = the whole file in hex; `inflate`, `nfc` and the reply as for `c01.read`.
-/
namespace Tabula.C01H
open Tabula Tabula.PdfDoc

def parseMB (s : String) : Option (Option (Int × Int × Int × Int)) :=
  if s == "-" then some none else
  match (s.splitOn ".").map String.toInt? with
  | [some a, some b, some c, some d] => some (some (a, b, c, d))
  | _ => none

def parseAttrs (mb res rot : String) : Option Attrs := do
  let mb ← parseMB mb
  let res ← if res == "-" then some none else if res == "A" then some (some 0) else if res == "B" then some (some 1) else none
  let rot ← if rot == "-" then some none else rot.toInt?.map some
  pure { mb := mb, res := res, rot := rot }

/-- tokens: "(" ")" and atoms; commas separate -/
def tokenize (s : String) : List String :=
  let rec go (cs : List Char) (cur : List Char) (acc : List String) : List String :=
    match cs with
    | [] => (if cur.isEmpty then acc else String.ofList cur.reverse :: acc).reverse
    | c :: rest =>
      let flush := if cur.isEmpty then acc else String.ofList cur.reverse :: acc
      if c == '(' then go rest [] ("(" :: flush)
      else if c == ')' then go rest [] (")" :: flush)
      else if c == ',' then go rest [] flush
      else go rest (c :: cur) acc
  go s.toList [] []

mutual
partial def parseTree : List String → Option (PTree × List String)
  | "(" :: "L" :: mb :: res :: rot :: ")" :: rest => do
    let a ← parseAttrs mb res rot
    pure (.leaf a, rest)
  | "(" :: "N" :: mb :: res :: rot :: rest => do
    let a ← parseAttrs mb res rot
    let (kids, rest') ← parseKids rest
    pure (.node a kids, rest')
  | _ => none
partial def parseKids : List String → Option (List PTree × List String)
  | ")" :: rest => some ([], rest)
  | toks => do
    let (t, rest) ← parseTree toks
    let (ts, rest') ← parseKids rest
    pure (t :: ts, rest')
end

def showAttrs (a : Attrs) : String :=
  let mb := match a.mb with | none => "-" | some (x, y, z, w) => s!"{x}.{y}.{z}.{w}"
  let res := match a.res with | none => "-" | some 0 => "A" | some _ => "B"
  let rot := match a.rot with | none => "0" | some r => toString r
  s!"{mb}|{res}|{rot}"

/-! ### `c01.read` -/

def unhexN (s : String) : Option (List Nat) := (unhex s).map fun b => b.map (·.toNat)

def optNat (s : String) : Option (Option Nat) := if s == "~" then some none else s.toNat?.map some

def parseEntry (s : String) : Option (Nat × Xref.Entry) :=
  let digits := s.takeWhile Char.isDigit
  let rest := (s.drop digits.length).toString
  match digits.toNat?, rest.toList with
  | some n, 'f' :: r => (String.ofList r).toNat?.map fun x => (n, .free x)
  | some n, 'n' :: r => (String.ofList r).toNat?.map fun x => (n, .at x)
  | some n, 'c' :: r =>
    match (String.ofList r).splitOn "." with
    | [a, b] => match a.toNat?, b.toNat? with
      | some a, some b => some (n, .inStm a b)
      | _, _ => none
    | _ => none
  | _, _ => none

def parseSec (s : String) : Option (Nat × Reader.XSec) :=
  match s.splitOn "/" with
  | [off, prev, root, es] => do
    let off ← off.toNat?
    let prev ← optNat prev
    let root ← optNat root
    let es ← if es == "-" then some [] else (es.splitOn ",").mapM parseEntry
    pure (off, { entries := es, prev := prev, root := root })
  | _ => none

def parseSecs (s : String) : Option (List (Nat × Reader.XSec)) :=
  if s == "-" then some [] else (s.splitOn ";").mapM parseSec

def parseObj (s : String) : Option (Nat × (Nat × Reader.RawBody)) :=
  match s.splitOn "/" with
  | [off, num, "p", body] => do
    let off ← off.toNat?; let num ← num.toNat?; let body ← unhexN body
    pure (off, (num, .plain body))
  | [off, num, "s", dict, data] => do
    let off ← off.toNat?; let num ← num.toNat?; let dict ← unhexN dict; let data ← unhexN data
    pure (off, (num, .stream dict data))
  | _ => none

def parseObjs (s : String) : Option (List (Nat × (Nat × Reader.RawBody))) :=
  if s == "-" then some [] else (s.splitOn ";").mapM parseObj

def parseInflate (s : String) : Option (List (List Nat × Option (List Nat))) :=
  if s == "_" then some [] else
  (s.splitOn ";").mapM fun e => match e.splitOn ">" with
    | [i, o] => do
      let i ← unhexN i
      let o ← if o == "!" then some none else (unhexN o).map some
      pure (i, o)
    | _ => none

def hexNat? (s : String) : Option Nat :=
  if s.isEmpty then none else
  s.toList.foldl (fun acc c => match acc, hexDigitVal c with
    | some a, some d => some (a * 16 + d) | _, _ => none) (some 0)

def scalars? (s : String) : Option (List Nat) :=
  if s == "-" then some [] else (s.splitOn ",").mapM hexNat?

def parseNfc (s : String) : Option (List (List Nat × List Nat)) :=
  if s == "~" then some [] else
  (s.splitOn ";").mapM fun e => match e.splitOn ">" with
    | [p, q] => do let p ← scalars? p; let q ← scalars? q; pure (p, q)
    | _ => none

/-- marks a string whose NFC form the harness did not supply (not a scalar value) -/
def nfcMissing : Nat := 0x110000

def hexNat (n : Nat) : String := String.ofList (Nat.toDigits 16 n)

def showStr (s : List Nat) : String := if s.isEmpty then "-" else ".".intercalate (s.map hexNat)

def showPage (p : List (List Nat)) : String := if p.isEmpty then "~" else ",".intercalate (p.map showStr)

def showResult : Except Reader.Err (List (List (List Nat))) → String
  | .ok ps => s!"ok n={ps.length} " ++ (if ps.isEmpty then "-" else "|".intercalate (ps.map showPage))
  | .error .err => "err"
  | .error .unsupported => "unsupported"
  | .error .fuel => "fuel"

def handle (op : String) (args : List String) : String :=
  match op, args with
  | "c01.ptree", [t] =>
    match parseTree (tokenize t) with
    | some (tree, []) =>
      match traverse 0 tree {} with
      | some ls => s!"n={ls.length} " ++ ";".intercalate (ls.map showAttrs)
      | none => "err"
    | _ => "bad-op"
  | "c01.joinfit", [lens] =>
    match (if lens == "-" then some [] else (lens.splitOn ",").mapM String.toNat?) with
    | some ls => if fitsLoop 0 ls then "ok" else "err"
    | none => "bad-op"
  | "c01.join", [parts] =>
    match (if parts == "" then some [] else (parts.splitOn ",").mapM unhex) with
    | some ps =>
      let ws := words (joinContents (ps.map (·.map (·.toNat))))
      ",".intercalate (ws.map fun w => hex (w.map UInt8.ofNat))
    | none => "bad-op"
  | "c01.read", [start, secs, objs, infl, nfc] =>
    match start.toNat?, parseSecs secs, parseObjs objs, parseInflate infl, parseNfc nfc with
    | some start, some secs, some objs, some infl, some nfc =>
      let ext : Reader.Ext := {
        filt := { inflate := fun x => match infl.find? (fun e => e.1 == x) with | some e => e.2 | none => none,
                  ccitt := fun _ _ => none },
        nfc := fun p => match nfc.find? (fun e => e.1 == p) with | some e => e.2 | none => nfcMissing :: p }
      showResult (Reader.readPages { objs := objs, secs := secs, start := start } ext)
    | _, _, _, _, _ => "bad-op"
  | "c01.readbytes", [file, infl, nfc] =>
    match unhexN file, parseInflate infl, parseNfc nfc with
    | some file, some infl, some nfc =>
      let ext : Reader.Ext := {
        filt := { inflate := fun x => match infl.find? (fun e => e.1 == x) with | some e => e.2 | none => none,
                  ccitt := fun _ _ => none },
        nfc := fun p => match nfc.find? (fun e => e.1 == p) with | some e => e.2 | none => nfcMissing :: p }
      showResult (ReadBytes.readBytes file ext)
    | _, _, _ => "bad-op"
  | _, _ => "bad-op"

end Tabula.C01H
