import TabulaModel.Util
import TabulaModel.Model.PdfDoc
namespace Tabula.C01H
open Tabula Tabula.PdfDoc

def parseMB (s : String) : Option (Option (Int × Int × Int × Int)) :=
  if s == "-" then some none else
  match (s.splitOn ".").map String.toInt? with
  | [some a, some b, some c, some d] => some (some (a, b, c, d))
  | _ => none

def parseAttrs (mb res rot : String) : Option Attrs := do
  let mb ← parseMB mb
  let res ← if res == "-" then some none else if res == "A" then some (some 0) else if res == "B" then some (some 1) else none
  let rot ← if rot == "-" then some none else rot.toInt?.map some
  pure { mb := mb, res := res, rot := rot }

/-- tokens: "(" ")" and atoms; commas separate -/
def tokenize (s : String) : List String :=
  let rec go (cs : List Char) (cur : List Char) (acc : List String) : List String :=
    match cs with
    | [] => (if cur.isEmpty then acc else String.ofList cur.reverse :: acc).reverse
    | c :: rest =>
      let flush := if cur.isEmpty then acc else String.ofList cur.reverse :: acc
      if c == '(' then go rest [] ("(" :: flush)
      else if c == ')' then go rest [] (")" :: flush)
      else if c == ',' then go rest [] flush
      else go rest (c :: cur) acc
  go s.toList [] []

mutual
partial def parseTree : List String → Option (PTree × List String)
  | "(" :: "L" :: mb :: res :: rot :: ")" :: rest => do
    let a ← parseAttrs mb res rot
    pure (.leaf a, rest)
  | "(" :: "N" :: mb :: res :: rot :: rest => do
    let a ← parseAttrs mb res rot
    let (kids, rest') ← parseKids rest
    pure (.node a kids, rest')
  | _ => none
partial def parseKids : List String → Option (List PTree × List String)
  | ")" :: rest => some ([], rest)
  | toks => do
    let (t, rest) ← parseTree toks
    let (ts, rest') ← parseKids rest
    pure (t :: ts, rest')
end

def showAttrs (a : Attrs) : String :=
  let mb := match a.mb with | none => "-" | some (x, y, z, w) => s!"{x}.{y}.{z}.{w}"
  let res := match a.res with | none => "-" | some 0 => "A" | some _ => "B"
  let rot := match a.rot with | none => "0" | some r => toString r
  s!"{mb}|{res}|{rot}"

def handle (op : String) (args : List String) : String :=
  match op, args with
  | "c01.ptree", [t] =>
    match parseTree (tokenize t) with
    | some (tree, []) =>
      let ls := flatten tree {}
      s!"n={countLeaves tree} " ++ ";".intercalate (ls.map showAttrs)
    | _ => "bad-op"
  | "c01.join", [parts] =>
    match (if parts == "" then some [] else (parts.splitOn ",").mapM unhex) with
    | some ps =>
      let ws := words (joinContents (ps.map (·.map (·.toNat))))
      ",".intercalate (ws.map fun w => hex (w.map UInt8.ofNat))
    | none => "bad-op"
  | _, _ => "bad-op"

end Tabula.C01H
