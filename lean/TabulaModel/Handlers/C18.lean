import TabulaModel.Util
import TabulaModel.Model.Package
/-!
Line protocol of C18.

`c18.pkg <fmt> a=<hexname>:<cid>,… x=<cid>=<spec>;…`
  fmt ∈ xlsx | pptx | epub; `a=` is the archive in ZIP order; `x=` the parse table
  (content ids not listed are opaque). spec:
    `S` worksheet   `L` slide   `B` not well-formed
    `W,<name>.<rid>,…`      workbook sheet list
    `R,<Id>.<Target>,…`     relationships
    `P`                     presentation without sldIdLst
    `Q,<rid>,…`             presentation with sldIdLst
    `C,<fullpath>.<mediatype>,…`   container rootfiles
    `F,<id>.<href>,…/I,<idref>,…`  package document: manifest / spine
  (all strings hex, `-` = empty)
  reply: `err` or `ok` followed by one field per presented part:
    xlsx `<Sheet.Index>:<cid>:<hexname>`  pptx `<Slide.Index>:<cid>`
    epub `<Chapter.Index>:<cid>:<hex Href>:<hex ID>`
`c18.href <hexbase> <hexhref>` → hex of `resolveHref`.
-/
namespace Tabula.C18H
open Tabula Tabula.Package

def toStr (b : Bytes) : Str := b.map (·.toNat)
def ofStr (s : Str) : Bytes := s.map UInt8.ofNat
def hexS (s : Str) : String := hex (ofStr s)
def unhexS (s : String) : Option Str := (unhex s).map toStr

def parsePair (s : String) : Option (Str × Str) :=
  match s.splitOn "." with
  | [a, b] => do pure (← unhexS a, ← unhexS b)
  | _ => none

def parseSpec (s : String) : Option Doc :=
  match s.splitOn "/" with
  | [one] =>
    match one.splitOn "," with
    | ["S"] => some .sheet
    | ["L"] => some .slide
    | ["B"] => some .bad
    | ["P"] => some (.presentation none)
    | "W" :: ps => (ps.mapM parsePair).map .workbook
    | "R" :: ps => (ps.mapM parsePair).map .rels
    | "Q" :: ids => (ids.mapM unhexS).map fun l => .presentation (some l)
    | "C" :: ps => (ps.mapM parsePair).map .container
    | _ => none
  | [f, i] =>
    match f.splitOn ",", i.splitOn "," with
    | "F" :: ps, "I" :: ids => do pure (.opf (← ps.mapM parsePair) (← ids.mapM unhexS))
    | _, _ => none
  | _ => none

def parseMember (s : String) : Option (Str × Nat) :=
  match s.splitOn ":" with
  | [n, c] => do pure (← unhexS n, ← c.toNat?)
  | _ => none

def parseDocEntry (s : String) : Option (Nat × Doc) :=
  match s.splitOn "=" with
  | [c, spec] => do pure (← c.toNat?, ← parseSpec spec)
  | _ => none

def docsOf (tbl : List (Nat × Doc)) : Docs := fun c =>
  match tbl.find? (·.1 = c) with
  | some e => e.2
  | none => .opaque

def parseArchive (s : String) : Option Archive :=
  if s == "" then some [] else (s.splitOn ",").mapM parseMember

def parseDocs (s : String) : Option Docs :=
  if s == "" then some (docsOf []) else ((s.splitOn ";").mapM parseDocEntry).map docsOf

def handle (op : String) (args : List String) : String :=
  match op, args with
  | "c18.href", [b, h] =>
    match unhexS b, unhexS h with
    | some b, some h => hexS (resolveHref b h)
    | _, _ => "bad-op"
  | "c18.pkg", [fmt, a, x] =>
    if !(a.startsWith "a=" && x.startsWith "x=") then "bad-op" else
    match parseArchive (a.drop 2).toString, parseDocs (x.drop 2).toString with
    | some arch, some docs =>
      match fmt with
      | "xlsx" => match xlsxOpen arch docs with
        | none => "err"
        | some ps => " ".intercalate ("ok" :: ps.map fun (i, c, n) => s!"{i}:{c}:{hexS n}")
      | "pptx" => match pptxOpen arch docs with
        | none => "err"
        | some ps => " ".intercalate ("ok" :: ps.map fun (i, c) => s!"{i}:{c}")
      | "epub" => match epubOpen arch docs with
        | none => "err"
        | some ps => " ".intercalate ("ok" :: ps.map fun (i, c, p, id) => s!"{i}:{c}:{hexS p}:{hexS id}")
      | _ => "bad-op"
    | _, _ => "bad-op"
  | _, _ => "bad-op"

end Tabula.C18H
