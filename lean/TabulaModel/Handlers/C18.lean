import TabulaModel.Util
import TabulaModel.Model.Package
import TabulaModel.Model.PackageApi
import TabulaModel.Model.PackageBind
/-!
Line protocol of C18.

`c18.pkg <fmt> a=<hexname>:<cid>,… x=<cid>=<spec>;…`
  fmt ∈ xlsx | pptx | epub; `a=` is the archive in ZIP order; `x=` the parse table
  (content ids not listed are opaque). spec:
    `S` worksheet   `L` slide   `B` not well-formed
    `W,<name>.<rid>,…`      workbook sheet list
    `R,<Id>.<Target>,…`     relationships
    `P`                     presentation without sldIdLst
    `Q,<rid>,…`             presentation with sldIdLst
    `C,<fullpath>.<mediatype>,…`   container rootfiles
    `F,<id>.<href>,…/I,<idref>,…`  package document: manifest / spine
  (all strings hex, `-` = empty)
  reply: `err` or `ok` followed by one field per presented part:
    xlsx `<Sheet.Index>:<cid>:<hexname>`  pptx `<Slide.Index>:<cid>`
    epub `<Chapter.Index>:<cid>:<hex Href>:<hex ID>`
    `T,<Id>.<Type>.<Target>,…`  relationships with their types (slide relationship parts)
    `N`                     notes slide
`c18.bind <fmt> a=… x=…` → as `c18.pkg`, the declaring parts given at ATTRIBUTE level
  (Model/PackageBind.lean): spec `w,<elem>,…` workbook from its `<sheet>` elements,
  `q,<elem>,…` presentation from its `<sldId>` elements, `t,<elem>,…` relationship part
  from its `<Relationship>` elements; elem = attributes in document order joined by `_`
  (`z` = none), attribute = `<hex namespace URI>.<hex local name>.<hex value>`.
`c18.href <hexbase> <hexhref>` → hex of `resolveHref`.
`c18.pptxn a=… x=…` → `err` or `ok` + per slide `<Slide.Index>:<cid>:<notes cid|->`
  (pptx.Open with parseSlideRelationships / parseSlideNotes).
`c18.api <fmt> a=… x=… m=<cid>=<hex first bytes of a member named mimetype>;… <tables> q=<call>;<call>…` — one opened reader, a history of
  calls; reply `err` (Open fails) or `ok` + one field per call.
  tables  xlsx: `g=<cid>=<grid>;…`  grid = rows joined by `,`, row = `r`+cells joined by
                `.`, cell = `<hexvalue>:<2*merged+root>`
          pptx: `g=<cid>=<title>/<blocks>/<tables>;…` `n=<cid>=<hex notes text>;…`
                block = `b<isTitle>.<hex placeholder>.<para>.<para>…` joined by `|`,
                para = `<hextext>:<level>:<2*bullet+numbered>`, table = `t`+rows joined
                by `,`, row = `r`+hex cells joined by `.`; tables joined by `|`
          epub: `h=<cid>.<mode>=<hex text|!>,<hex markdown|!>;…` `p=<cid>=<pages|!>;…`
  calls   `C` count  `N` SheetNames  `S,<i>` Sheet/Slide  `B,<hexname>` SheetByName
          `L` Chapters  `T,<sel>,…` TextWithOptions  `M,<sel>,…` markdown  `D` Document
          `FC` `FT,<eh><ef>,<pages>` `FD` the front door tabula.Open(f).PageCount/Text/Document
          (selection: ints joined by `_`, `e` = empty; epub `T,<mode>` / `M,<mode>`)
-/
namespace Tabula.C18H
open Tabula Tabula.Package

def toStr (b : Bytes) : Str := b.map (·.toNat)
def ofStr (s : Str) : Bytes := s.map UInt8.ofNat
def hexS (s : Str) : String := hex (ofStr s)
def unhexS (s : String) : Option Str := (unhex s).map toStr

def parsePair (s : String) : Option (Str × Str) :=
  match s.splitOn "." with
  | [a, b] => do pure (← unhexS a, ← unhexS b)
  | _ => none

def parseTriple (s : String) : Option (Str × Str × Str) :=
  match s.splitOn "." with
  | [a, b, c] => do pure (← unhexS a, ← unhexS b, ← unhexS c)
  | _ => none

def parseElem (s : String) : Option (List PackageBind.Attr) :=
  if s == "z" then some [] else (s.splitOn "_").mapM parseTriple

def parseSpec (s : String) : Option Doc :=
  match s.splitOn "/" with
  | [one] =>
    match one.splitOn "," with
    | ["S"] => some .sheet
    | ["L"] => some .slide
    | ["B"] => some .bad
    | ["N"] => some .notes
    | "T" :: ps => (ps.mapM parseTriple).map .relsT
    | ["P"] => some (.presentation none)
    | "W" :: ps => (ps.mapM parsePair).map .workbook
    | "R" :: ps => (ps.mapM parsePair).map .rels
    | "Q" :: ids => (ids.mapM unhexS).map fun l => .presentation (some l)
    | "C" :: ps => (ps.mapM parsePair).map .container
    | "w" :: es => (es.mapM parseElem).map PackageBind.bindWorkbook
    | "q" :: es => (es.mapM parseElem).map fun l => PackageBind.bindPresentation (some l)
    | "t" :: es => (es.mapM parseElem).map PackageBind.bindRels
    | _ => none
  | [f, i] =>
    match f.splitOn ",", i.splitOn "," with
    | "F" :: ps, "I" :: ids => do pure (.opf (← ps.mapM parsePair) (← ids.mapM unhexS))
    | _, _ => none
  | _ => none

def parseMember (s : String) : Option (Str × Nat) :=
  match s.splitOn ":" with
  | [n, c] => do pure (← unhexS n, ← c.toNat?)
  | _ => none

def parseDocEntry (s : String) : Option (Nat × Doc) :=
  match s.splitOn "=" with
  | [c, spec] => do pure (← c.toNat?, ← parseSpec spec)
  | _ => none

def docsOf (tbl : List (Nat × Doc)) : Docs := fun c =>
  match tbl.find? (·.1 = c) with
  | some e => e.2
  | none => .opaque

def parseArchive (s : String) : Option Archive :=
  if s == "" then some [] else (s.splitOn ",").mapM parseMember

def parseDocs (s : String) : Option Docs :=
  if s == "" then some (docsOf []) else ((s.splitOn ";").mapM parseDocEntry).map docsOf

/-! ### op c18.api -/
open Tabula.PackageApi

def parseTable {β : Type} (s : String) (f : String → Option β) : Option (List (String × β)) :=
  if s == "" then some [] else
  (s.splitOn ";").mapM fun e =>
    match e.splitOn "=" with
    | [k, v] => (f v).map fun b => (k, b)
    | _ => none

def tblGet {β : Type} (tbl : List (String × β)) (k : String) (dflt : β) : β :=
  match tbl.find? (·.1 == k) with
  | some e => e.2
  | none => dflt

def parseSel (s : String) : Option (List Int) :=
  if s == "e" then some [] else (s.splitOn "_").mapM String.toInt?

def parseFlag (s : String) (i : Nat) : Bool := (s.toList.drop i).head? == some '1'

def parseCell (s : String) : Option Cell :=
  match s.splitOn ":" with
  | [v, f] => do
    let v ← unhexS v
    let f ← f.toNat?
    pure ⟨v, f / 2 % 2 == 1, f % 2 == 1⟩
  | _ => none

/-- `r` + items joined by `.` -/
def parseTagged {β : Type} (tag : Char) (sep : String) (f : String → Option β) (s : String) : Option (List β) :=
  match s.toList with
  | c :: rest =>
    if c == tag then
      (if rest.isEmpty then some [] else ((String.ofList rest).splitOn sep).mapM f)
    else none
  | [] => none

def parseGrid (s : String) : Option Grid :=
  if s == "" then some [] else (s.splitOn ",").mapM (parseTagged 'r' "." parseCell)

def parsePara (s : String) : Option Para :=
  match s.splitOn ":" with
  | [t, l, f] => do
    let t ← unhexS t
    let l ← l.toNat?
    let f ← f.toNat?
    pure ⟨t, l, f / 2 % 2 == 1, f % 2 == 1⟩
  | _ => none

def parseBlock (s : String) : Option Block :=
  match s.splitOn "." with
  | hd :: ph :: paras => do
    let isT ← (if hd == "b1" then some true else if hd == "b0" then some false else none)
    let ph ← unhexS ph
    let ps ← paras.mapM parsePara
    pure ⟨isT, ph, ps⟩
  | _ => none

def parseList {β : Type} (sep : String) (f : String → Option β) (s : String) : Option (List β) :=
  if s == "" then some [] else (s.splitOn sep).mapM f

def parseSlideBody (s : String) : Option SlideBody :=
  match s.splitOn "/" with
  | [t, bs, ts] => do
    let t ← unhexS t
    let bs ← parseList "|" parseBlock bs
    let ts ← parseList "|" (parseTagged 't' "," (parseTagged 'r' "." unhexS)) ts
    pure ⟨t, bs, ts⟩
  | _ => none

def parseOptHex (s : String) : Option (Option Str) :=
  if s == "!" then some none else (unhexS s).map some

def parseView (s : String) : Option (Option Str × Option Str) :=
  match s.splitOn "," with
  | [t, m] => do pure (← parseOptHex t, ← parseOptHex m)
  | _ => none

def parseOptNat (s : String) : Option (Option Nat) :=
  if s == "!" then some none else s.toNat?.map some

def field (pre : String) (s : String) : Option String :=
  if s.startsWith pre then some (s.drop pre.length).toString else none

def joinC (l : List String) : String := ",".intercalate l

def showSheet : Option Sheet → String
  | none => "sheet=none"
  | some s => s!"sheet={s.index}:{s.cid}:{hexS s.name}"

def showOptNat : Option Nat → String
  | none => "-"
  | some n => toString n

def showSlide : Option Slide → String
  | none => "slide=none"
  | some s => s!"slide={s.index}:{s.cid}:{showOptNat s.notesCid}"

/-- front-door reply -/
def showOpt (o : Option String) : String := o.getD "err"

def xlsxCall (arch : Archive) (docs : Docs) (mime : Nat → Option Str) (grid : Nat → Grid) (r : XReader) (c : String) : Option String :=
  let one (k : XCall) : String :=
    match (xlsxStep r k).1 with
    | .num n => s!"n={n}/{n}"
    | .strs l => "names=" ++ joinC (l.map hexS)
    | .sheet s => showSheet s
    | .str s => "text=" ++ hexS s
    | .parts l => "parts=" ++ joinC (l.map fun s => toString s.cid)
    | .pages l => "pages=" ++ joinC (l.map fun p => s!"{p.number}:{p.cid}")
  match c.splitOn "," with
  | ["C"] => some (one .count)
  | ["N"] => some (one .names)
  | ["S", i] => i.toInt?.map fun i => one (.sheet i)
  | ["B", n] => (unhexS n).map fun n => one (.byName n)
  | ["T", sel, h, d] => do
    let sel ← parseSel sel
    let d ← unhexS d
    pure (one (.text { sheets := sel, headers := h == "1", delim := d }))
  | ["M", sel] => (parseSel sel).map fun sel => one (.markdown { sheets := sel })
  | ["D"] => some (one .document)
  | ["FC"] => some (showOpt ((openCountXlsx arch docs mime grid).map fun n => s!"n={n}"))
  | ["FT", f, pg] => (parseSel pg).map fun pg =>
    showOpt ((openTextXlsx arch docs mime grid { exHeaders := parseFlag f 0, exFooters := parseFlag f 1, pages := pg }).map
      fun s => "text=" ++ hexS s)
  | ["FD"] => some (showOpt ((openDocXlsx arch docs mime grid).map fun l =>
      "pages=" ++ joinC (l.map fun p => s!"{p.number}:{p.cid}")))
  | _ => none

def pptxCall (arch : Archive) (docs : Docs) (mime : Nat → Option Str) (body : Nat → SlideBody) (nt : Nat → Str) (r : PReader) (c : String) :
    Option String :=
  let one (k : PCall) : String :=
    match (pptxStep r k).1 with
    | .num n => s!"n={n}/{n}"
    | .slide s => showSlide s
    | .str s => "text=" ++ hexS s
    | .parts l => "parts=" ++ joinC (l.map fun s => toString s.cid)
    | .pages l => "pages=" ++ joinC (l.map fun p => s!"{p.number}:{p.cid}")
  let opts (sel : List Int) (f : String) : POpts :=
    { slides := sel, notes := parseFlag f 0, titles := parseFlag f 1, exHeaders := parseFlag f 2, exFooters := parseFlag f 3 }
  match c.splitOn "," with
  | ["C"] => some (one .count)
  | ["S", i] => i.toInt?.map fun i => one (.slide i)
  | ["T", sel, f] => (parseSel sel).map fun sel => one (.text (opts sel f))
  | ["M", sel, f] => (parseSel sel).map fun sel => one (.markdown (opts sel f))
  | ["D"] => some (one .document)
  | ["FC"] => some (showOpt ((openCountPptx arch docs mime body nt).map fun n => s!"n={n}"))
  | ["FT", f, pg] => (parseSel pg).map fun pg =>
    showOpt ((openTextPptx arch docs mime body nt { exHeaders := parseFlag f 0, exFooters := parseFlag f 1, pages := pg }).map
      fun s => "text=" ++ hexS s)
  | ["FD"] => some (showOpt ((openDocPptx arch docs mime body nt).map fun l =>
      "pages=" ++ joinC (l.map fun p => s!"{p.number}:{p.cid}")))
  | _ => none

def showPages (l : List EPage) : String := "pages=" ++ joinC (l.map fun p => s!"{p.number}:{p.cid}")

def epubCall (h : HtmlViews) (arch : Archive) (docs : Docs) (mime : Nat → Option Str) (r : EReader) (c : String) : Option String :=
  let one (k : ECall) : String :=
    match (epubStep h r k).1 with
    | .num n => s!"n={n}/{n}"
    | .chapters l => "ch=" ++ joinC (l.map fun c => s!"{c.index}:{c.cid}:{hexS c.href}:{hexS c.id}")
    | .str s => "text=" ++ hexS s
    | .pages l => showPages l
  match c.splitOn "," with
  | ["C"] => some (one .count)
  | ["L"] => some (one .chapters)
  | ["T", m] => m.toInt?.map fun m => one (.text m)
  | ["M", m] => m.toInt?.map fun m => one (.markdown m)
  | ["D"] => some (one .document)
  | ["FC"] => some (showOpt ((openCountEpub arch docs mime).map fun n => s!"n={n}"))
  | ["FT", f, pg] => (parseSel pg).map fun pg =>
    showOpt ((openTextEpub h arch docs mime { exHeaders := parseFlag f 0, exFooters := parseFlag f 1, pages := pg }).map
      fun s => "text=" ++ hexS s)
  | ["FD"] => some (showOpt ((openDocEpub h arch docs mime).map showPages))
  | _ => none

def runCalls (q : String) (f : String → Option String) : String :=
  match (parseList ";" f q) with
  | some outs => " ".intercalate ("ok" :: outs)
  | none => "bad-op"

def handleApi (fmt : String) (rest : List String) : String :=
  match rest with
  | a :: x :: m :: more =>
    match (field "a=" a).bind parseArchive, (field "x=" x).bind parseDocs, (field "m=" m).bind (parseTable · unhexS) with
    | some arch, some docs, some mt =>
      let mime : Nat → Option Str := fun c => (mt.find? (·.1 == toString c)).map (·.2)
      match fmt, more with
      | "xlsx", [g, q] =>
        match (field "g=" g).bind (parseTable · parseGrid), field "q=" q with
        | some gt, some q =>
          let grid : Nat → Grid := fun c => tblGet gt (toString c) []
          match xlsxReader arch docs grid with
          | none => "err"
          | some r => runCalls q (xlsxCall arch docs mime grid r)
        | _, _ => "bad-op"
      | "pptx", [g, n, q] =>
        match (field "g=" g).bind (parseTable · parseSlideBody), (field "n=" n).bind (parseTable · unhexS), field "q=" q with
        | some gt, some ntab, some q =>
          let body : Nat → SlideBody := fun c => tblGet gt (toString c) ⟨[], [], []⟩
          let nt : Nat → Str := fun c => tblGet ntab (toString c) []
          match pptxReader arch docs body nt with
          | none => "err"
          | some r => runCalls q (pptxCall arch docs mime body nt r)
        | _, _, _ => "bad-op"
      | "epub", [h, p, q] =>
        match (field "h=" h).bind (parseTable · parseView), (field "p=" p).bind (parseTable · parseOptNat), field "q=" q with
        | some ht, some pt, some q =>
          let views : HtmlViews :=
            { text := fun c m => (tblGet ht s!"{c}.{m}" (none, none)).1
              md := fun c m => (tblGet ht s!"{c}.{m}" (none, none)).2
              pages := fun c => tblGet pt (toString c) none }
          match epubReader arch docs with
          | none => "err"
          | some r => runCalls q (epubCall views arch docs mime r)
        | _, _, _ => "bad-op"
      | _, _ => "bad-op"
    | _, _, _ => "bad-op"
  | _ => "bad-op"

def handle (op : String) (args : List String) : String :=
  match op, args with
  | "c18.api", fmt :: rest => handleApi fmt rest
  | "c18.pptxn", [a, x] =>
    match (field "a=" a).bind parseArchive, (field "x=" x).bind parseDocs with
    | some arch, some docs =>
      match pptxOpenN arch docs with
      | none => "err"
      | some ps => " ".intercalate ("ok" :: ps.map fun (i, c, n) => s!"{i}:{c}:{showOptNat n}")
    | _, _ => "bad-op"
  | "c18.href", [b, h] =>
    match unhexS b, unhexS h with
    | some b, some h => hexS (resolveHref b h)
    | _, _ => "bad-op"
  | "c18.pkg", [fmt, a, x] | "c18.bind", [fmt, a, x] =>
    if !(a.startsWith "a=" && x.startsWith "x=") then "bad-op" else
    match parseArchive (a.drop 2).toString, parseDocs (x.drop 2).toString with
    | some arch, some docs =>
      match fmt with
      | "xlsx" => match xlsxOpen arch docs with
        | none => "err"
        | some ps => " ".intercalate ("ok" :: ps.map fun (i, c, n) => s!"{i}:{c}:{hexS n}")
      | "pptx" => match pptxOpen arch docs with
        | none => "err"
        | some ps => " ".intercalate ("ok" :: ps.map fun (i, c) => s!"{i}:{c}")
      | "epub" => match epubOpen arch docs with
        | none => "err"
        | some ps => " ".intercalate ("ok" :: ps.map fun (i, c, p, id) => s!"{i}:{c}:{hexS p}:{hexS id}")
      | _ => "bad-op"
    | _, _ => "bad-op"
  | _, _ => "bad-op"

end Tabula.C18H
