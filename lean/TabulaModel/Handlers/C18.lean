import TabulaModel.Util
namespace Tabula.C18H

def handle (_op : String) (_args : List String) : String := "bad-op"

end Tabula.C18H
