import TabulaModel.Util
import TabulaModel.Model.Detect
import TabulaModel.Model.Drm
/-
Line protocol of C20 (see harness/c20/c20.go for the wire format).
-/
namespace Tabula.C20H
open Tabula Tabula.Detect Tabula.Drm

def unhexS (s : String) : Option Str := (unhex s).map (·.map (·.toNat))

def parseMember (s : String) : Option Member :=
  match s.splitOn ":" with
  | [n] => do let n ← unhexS n; pure { name := n, data := none }
  | [n, d] => do let n ← unhexS n; let d ← unhexS d; pure { name := n, data := some d }
  | _ => none

def parseMembers (s : String) : Option (List Member) :=
  if s == "-" then some [] else (s.splitOn ",").mapM parseMember

/-- `<zip>` field: `-` not a ZIP (never consulted), `err` zip.NewReader failed -/
def parseZip (s : String) : Option (Option (List Member)) :=
  if s == "err" then some none else (parseMembers s).map some

def fmtOpt : Option Format → String
  | none => "err"
  | some f => f.name

def parseEntry (s : String) : Option Entry :=
  match s.splitOn ":" with
  | [a, u] => do let a ← unhexS a; let u ← unhexS u; pure ⟨a, u⟩
  | _ => none

def parseDMember (s : String) : Option DMember :=
  if s == "R" then some .rights
  else if s == "B" then some (.encryption none)
  else if s == "O" then some .other
  else if s == "E" then some (.encryption (some []))
  else if s.startsWith "E" then
    ((s.drop 1).toString.splitOn ";").mapM parseEntry |>.map (fun es => .encryption (some es))
  else none

def parseDMembers (s : String) : Option (List DMember) :=
  if s == "-" then some [] else (s.splitOn ",").mapM parseDMember

def handle (op : String) (args : List String) : String :=
  match op, args with
  | "c20.ext", [n] => match unhexS n with
    | some n => (detect n).name | none => "bad-op"
  | "c20.magic", [b] => match unhexS b with
    | some b => (detectFromMagic b).name | none => "bad-op"
  | "c20.zipfmt", [ms] => match parseMembers ms with
    | some ms => (detectZip ms).name | none => "bad-op"
  | "c20.detect", [file, zip] => match unhexS file, parseZip zip with
    | some f, some z => fmtOpt (detectFromReader f z) | _, _ => "bad-op"
  | "c20.admission", [name, file, zip, t] => match unhexS name, unhexS file, parseZip zip with
    | some n, some f, some z =>
      let extF := detect n
      let det := detectFromReader f z
      let v := if validateFormat extF det = .ok then "ok" else "err"
      -- the reader that ensureReader goes on to open: the document's own
      -- reader accepts it, the HTML reader accepts any bytes, every other
      -- reader rejects a document of another kind
      let o := match ensureReader extF det with
        | .proceed g => if g = Format.html ∨ g.name = t then "ok" else "err"
        | _ => "err"
      s!"v={v} open={o}"
    | _, _, _ => "bad-op"
  | "c20.obf", [a] => match unhexS a with
    | some a => toString (isFontObfuscation a) | none => "bad-op"
  | "c20.content", [u] => match unhexS u with
    | some u => toString (isContentFile u) | none => "bad-op"
  | "c20.drm", [ms] => match parseDMembers ms with
    | some ms => if checkForDRM ms then "drm" else "ok" | none => "bad-op"
  | _, _ => "bad-op"

end Tabula.C20H
