import TabulaModel.Util
namespace Tabula.C20H

def handle (_op : String) (_args : List String) : String := "bad-op"

end Tabula.C20H
