import TabulaModel.Util
import TabulaModel.Model.Detect
import TabulaModel.Model.Drm
import TabulaModel.Model.Admit
import TabulaModel.Model.EncXml
import TabulaModel.Model.DetectBytes
/-
Line protocol of C20 (see harness/c20/c20.go for the wire format).
-/
namespace Tabula.C20H
open Tabula Tabula.Detect Tabula.Drm Tabula.Admit Tabula.EncXml Tabula.DetectB

def unhexS (s : String) : Option Str := (unhex s).map (·.map (·.toNat))

def parseMember (s : String) : Option Member :=
  match s.splitOn ":" with
  | [n] => do let n ← unhexS n; pure { name := n, data := none }
  | [n, d] => do let n ← unhexS n; let d ← unhexS d; pure { name := n, data := some d }
  | _ => none

def parseMembers (s : String) : Option (List Member) :=
  if s == "-" then some [] else (s.splitOn ",").mapM parseMember

/-- `<zip>` field: `-` not a ZIP (never consulted), `err` zip.NewReader failed -/
def parseZip (s : String) : Option (Option (List Member)) :=
  if s == "err" then some none else (parseMembers s).map some

def fmtOpt : Option Format → String
  | none => "err"
  | some f => f.name

def parseEntry (s : String) : Option Entry :=
  match s.splitOn ":" with
  | [a, u] => do let a ← unhexS a; let u ← unhexS u; pure ⟨a, u⟩
  | _ => none

def parseDMember (s : String) : Option DMember :=
  if s == "R" then some .rights
  else if s == "B" then some (.encryption none)
  else if s == "O" then some .other
  else if s == "E" then some (.encryption (some []))
  else if s.startsWith "E" then
    ((s.drop 1).toString.splitOn ";").mapM parseEntry |>.map (fun es => .encryption (some es))
  else none

def parseDMembers (s : String) : Option (List DMember) :=
  if s == "-" then some [] else (s.splitOn ",").mapM parseDMember


/-! ### wire format of the API ops (see harness/c20/api.go) -/

/-- entries of a parsable encryption.xml: `algohex.urihex` joined by `;` (`""` = none) -/
def parseEntries (s : String) : Option (List Entry) :=
  if s == "" then some []
  else (s.splitOn ";").mapM fun t =>
    match t.splitOn "." with
    | [a, u] => do let a ← unhexS a; let u ← unhexS u; pure (⟨a, u⟩ : Entry)
    | _ => none

/-- `namehex[:d=<contenthex>][:e=B|:e=<entries>]` -/
def parseAMember (s : String) : Option AMember :=
  match s.splitOn ":" with
  | [] => none
  | n :: opts => do
    let n ← unhexS n
    opts.foldlM (init := ({ name := n } : AMember)) fun m o =>
      if o.startsWith "d=" then do
        let d ← unhexS (o.drop 2).toString
        pure { m with data := some d }
      else if o == "e=B" then pure { m with enc := none }
      else if o.startsWith "e=" then do
        let es ← parseEntries (o.drop 2).toString
        pure { m with enc := some es }
      else none

/-- `err` (archive/zip rejects the bytes), `-` (an archive without members) or members
joined by `,` -/
def parseAZip (s : String) : Option (Option (List AMember)) :=
  if s == "err" then some none
  else if s == "-" then some (some [])
  else ((s.splitOn ",").mapM parseAMember).map some

def formatsInOrder : List Format := [.pdf, .docx, .odt, .xlsx, .pptx, .html, .epub]

/-- seven `0`/`1` flags in the order PDF DOCX ODT XLSX PPTX HTML EPUB -/
def parseAccepts (s : String) : Option (Format → Bool) :=
  let cs := s.toList
  if cs.length = 7 ∧ cs.all (fun c => c == '0' || c == '1') then
    some fun f => match formatsInOrder.idxOf? f with
      | some i => cs[i]? == some '1'
      | none => false
  else none

/-- `M` | `D` | `F/<bytes>/<accepts>/<zip>` -/
def parseFS (s : String) : Option FileState :=
  if s == "M" then some .missing
  else if s == "D" then some .unreadable
  else match s.splitOn "/" with
    | ["F", h, a, z] => do
      let h ← unhexS h; let a ← parseAccepts a; let z ← parseAZip z
      pure (.file h z a)
    | _ => none

def parseKind (c : Char) : Option TKind :=
  if c == 't' then some .text else if c == 'd' then some .document
  else if c == 'm' then some .markdown else if c == 'f' then some .pdfOnly
  else if c == 'p' then some .pageCount else if c == 'q' then some .pdfProbe else none

def outcomeName : Outcome → String
  | .errSet => "errset" | .noFilename => "nofilename" | .openFailed => "openfailed"
  | .detectFailed => "detectfailed" | .mismatch => "mismatch" | .unsupported => "unsupported"
  | .drm => "drm" | .readerFailed => "readerfailed" | .notPdf => "notpdf"
  | .nilReader => "nilreader" | .reached => "reached"

/-- `O<namehex>` `H0|H1` `P` (FromReader) `V<i>|W<i>` (derive ok/bad) `T<kind><i>` `C<i>` `R<j>` -/
def parseCall (tbl : List FileState) (s : String) : Option Call :=
  match s.toList with
  | 'O' :: r => (unhexS (String.ofList r)).map .open
  | ['H', '1'] => some (.fromHTML true)
  | ['H', '0'] => some (.fromHTML false)
  | ['P'] => some .fromReader
  | 'V' :: r => (String.ofList r).toNat?.map (.derive · false)
  | 'W' :: r => (String.ofList r).toNat?.map (.derive · true)
  | 'T' :: k :: r => do let k ← parseKind k; let i ← (String.ofList r).toNat?; pure (.op i k)
  | 'C' :: r => (String.ofList r).toNat?.map .close
  | 'R' :: r => do let j ← (String.ofList r).toNat?; let fs ← tbl[j]?; pure (.rewrite fs)
  | _ => none

def flagsOf (s : St) (i : Nat) : String :=
  match s.exts[i]? with
  | some e => s!"/o{if e.opened then 1 else 0}w{if e.owns then 1 else 0}"
  | none => "/?"

/-- run the history, printing one token per call -/
def runPrint : St → List Call → List String
  | _, [] => []
  | s, c :: cs =>
    let (s1, r) := step s c
    let tok := match r, c with
      | .created i, _ => s!"#{i}" ++ flagsOf s1 i
      | .closed, .close i => "closed" ++ flagsOf s1 i
      | .res r, .op i _ => outcomeName r.out ++ flagsOf s1 i
      | .rewritten, _ => "rw"
      | _, _ => "bad"
    tok :: runPrint s1 cs

def mimeCheckName : MimeCheck → String
  | .ok => "ok" | .invalid => "invalid" | .readErr => "readerr"

def epubOpenName : EpubOpen → String
  | .ok => "ok" | .invalidArchive => "invalid" | .drm => "drm" | .structure => "structure"

def handleApi (op : String) (args : List String) : String :=
  match op, args with
  | "c20.mimecheck", [z] => match parseAZip z with
    | some (some ms) => mimeCheckName (validateMimetype ms) | _ => "bad-op"
  | "c20.epubopen", [z, rest] => match parseAZip z with
    | some zip => epubOpenName (epubOpen zip (rest == "1")) | none => "bad-op"
  | "c20.zipdrm", [z] => match parseAZip z with
    | some (some ms) => s!"{(archiveFormat ms).name} {if archiveDRM ms then "drm" else "ok"}" | _ => "bad-op"
  | "c20.open", [n, fs, k] => match unhexS n, parseFS fs, k.toList with
    | some n, some fs, [k] => match parseKind k with
      | some k => outcomeName (openAndRun n fs k).out
      | none => "bad-op"
    | _, _, _ => "bad-op"
  | "c20.fmt", [n, stem] => match n.toNat?, unhexS stem with
    | some n, some stem =>
      let f := formatOfNat n
      s!"{f.name} {hex ((extensionOf f).map UInt8.ofNat)} {(detect (stem ++ extensionOf f)).name}"
    | _, _ => "bad-op"
  | "c20.spell", [kind, raw] => match unhexS raw with
    | some raw =>
      let out := if kind == "ref" then some (hrefEsc raw) else if kind == "comp" then some (hrefEscAll raw)
        else if kind == "verbatim" then some (pctEsc (fun _ => true) raw) else none
      match out with
      | some o => s!"{hex (o.map UInt8.ofNat)} {isContentFile o}"
      | none => "bad-op"
    | none => "bad-op"
  | "c20.hist", [tbl, calls] => match (tbl.splitOn "|").mapM parseFS with
    | some (fs0 :: more) => match (calls.splitOn ",").mapM (parseCall (fs0 :: more)) with
      | some cs => ",".intercalate (runPrint { cur := fs0 } cs)
      | none => "bad-op"
    | _ => "bad-op"
  | _, _ => "bad-op"

/-! ### wire format of the byte-exact ops (see harness/c20/bytes.go) -/

def hexNat? (s : String) : Option Nat :=
  if s.isEmpty then none
  else s.toList.foldlM (fun acc c => (hexDigitVal c).map (acc * 16 + ·)) 0

/-- `-` or `r:upper:lower` (hex) joined by `,`: the rows of the case tables for the runes
that occur; every other rune is mapped to itself -/
def parsePairs (s : String) : Option Tables :=
  if s == "-" then some ⟨id, id⟩
  else do
    let rows ← (s.splitOn ",").mapM fun t =>
      match t.splitOn ":" with
      | [r, u, l] => do
        let r ← hexNat? r; let u ← hexNat? u; let l ← hexNat? l
        pure (r, u, l)
      | _ => none
    let look (sel : Nat × Nat × Nat → Nat) (r : Nat) : Nat :=
      match rows.find? (fun row => row.1 == r) with
      | some row => sel row
      | none => r
    pure ⟨look (fun row => row.2.1), look (fun row => row.2.2)⟩

def isHexish (c : Char) : Bool := (hexDigitVal c).isSome || c == '-'

def takeHexS (cs : List Char) : Option (Str × List Char) :=
  let h := cs.takeWhile isHexish
  (unhexS (String.ofList h)).map fun bs => (bs, cs.dropWhile isHexish)

/-- attributes: { `@` space `~` local `~` value } -/
partial def parseXAttrs (cs : List Char) (acc : List XAttr) : Option (List XAttr × List Char) :=
  match cs with
  | '@' :: rest =>
    match takeHexS rest with
    | some (sp, '~' :: r1) =>
      match takeHexS r1 with
      | some (lc, '~' :: r2) =>
        match takeHexS r2 with
        | some (v, r3) => parseXAttrs r3 (⟨sp, lc, v⟩ :: acc)
        | none => none
      | _ => none
    | _ => none
  | _ => some (acc.reverse, cs)

mutual
partial def parseXNode (cs : List Char) : Option (XNode × List Char) :=
  match cs with
  | '.' :: rest => some (.other, rest)
  | '(' :: rest =>
    match takeHexS rest with
    | some (n, r1) =>
      match parseXAttrs r1 [] with
      | some (as, r2) =>
        match parseXKids r2 [] with
        | some (ks, r3) => some (.elem n as ks, r3)
        | none => none
      | none => none
    | none => none
  | _ => none
partial def parseXKids (cs : List Char) (acc : List XNode) : Option (List XNode × List Char) :=
  match cs with
  | ')' :: rest => some (acc.reverse, rest)
  | [] => none
  | _ =>
    match parseXNode cs with
    | some (n, rest) => parseXKids rest (n :: acc)
    | none => none
end

/-- `B` or a tree -/
def parseDoc (s : String) : Option EncDoc :=
  if s == "B" then some none
  else match parseXNode s.toList with
    | some (n, []) => some (some n)
    | _ => none

/-- `namehex[:d=<contenthex>][:x=<doc>]` -/
def parseXMember (s : String) : Option XMember :=
  match s.splitOn ":" with
  | [] => none
  | n :: opts => do
    let n ← unhexS n
    opts.foldlM (init := ({ name := n } : XMember)) fun m o =>
      if o.startsWith "d=" then do
        let d ← unhexS (o.drop 2).toString
        pure { m with data := some d }
      else if o.startsWith "x=" then do
        let d ← parseDoc (o.drop 2).toString
        pure { m with doc := d }
      else none

def parseXZip (s : String) : Option (Option (List XMember)) :=
  if s == "err" then some none
  else if s == "-" then some (some [])
  else ((s.splitOn ",").mapM parseXMember).map some

def parseFSB (s : String) : Option FileStateB :=
  if s == "M" then some .missing
  else if s == "D" then some .unreadable
  else match s.splitOn "/" with
    | ["F", h, a, z] => do
      let h ← unhexS h; let a ← parseAccepts a; let z ← parseXZip z
      pure (.file ⟨h, z, a⟩)
    | _ => none

def entriesOut (es : List Entry) : String :=
  if es.isEmpty then "none"
  else ";".intercalate (es.map fun e => s!"{hex (e.algorithm.map UInt8.ofNat)}.{hex (e.uri.map UInt8.ofNat)}")

def handleBytes (op : String) (args : List String) : String :=
  match op, args with
  | "c20.extb", [n, p] => match unhexS n, parsePairs p with
    | some n, some t => (detectB t.lo n).name | _, _ => "bad-op"
  | "c20.magicb", [b, p] => match unhexS b, parsePairs p with
    | some b, some t => (detectFromMagicB t.up b).name | _, _ => "bad-op"
  | "c20.contentb", [u, p] => match unhexS u, parsePairs p with
    | some u, some t => toString (isContentFileB t.lo u) | _, _ => "bad-op"
  | "c20.mimeb", [d] => match unhexS d with
    | some d =>
      s!"{(detectZipB [⟨nMimetype, some d⟩]).name} {mimeCheckName (validateMimetypeB [⟨nMimetype, some d, none⟩])}"
    | none => "bad-op"
  | "c20.encxml", [d, p] => match parseDoc d, parsePairs p with
    | some d, some t =>
      let ent := match encEntries d with | some es => entriesOut es | none => "err"
      let dec := match encEntries d with
        | some es => toString (hasEncryptedContentB t.lo es)
        | none => "err"
      s!"{ent} {dec}"
    | _, _ => "bad-op"
  | "c20.admitb", [n, fs, p] => match unhexS n, parseFSB fs, parsePairs p with
    | some n, some fs, some t =>
      (match admitFileB t (detectB t.lo n) fs with
        | .ok f => s!"ok:{f.name}"
        | .error o => s!"err:{outcomeName o}")
    | _, _, _ => "bad-op"
  | "c20.openb", [n, fs, k, p] => match unhexS n, parseFSB fs, k.toList, parsePairs p with
    | some n, some fs, [k], some t => match parseKind k with
      | some k => outcomeName (openAndRunB t n fs k).out
      | none => "bad-op"
    | _, _, _, _ => "bad-op"
  | _, _ => "bad-op"

def handle (op : String) (args : List String) : String :=
  match op, args with
  | "c20.ext", [n] => match unhexS n with
    | some n => (detect n).name | none => "bad-op"
  | "c20.magic", [b] => match unhexS b with
    | some b => (detectFromMagic b).name | none => "bad-op"
  | "c20.zipfmt", [ms] => match parseMembers ms with
    | some ms => (detectZip ms).name | none => "bad-op"
  | "c20.detect", [file, zip] => match unhexS file, parseZip zip with
    | some f, some z => fmtOpt (detectFromReader f z) | _, _ => "bad-op"
  | "c20.admission", [name, file, zip, t] => match unhexS name, unhexS file, parseZip zip with
    | some n, some f, some z =>
      let extF := detect n
      let det := detectFromReader f z
      let v := if validateFormat extF det = .ok then "ok" else "err"
      -- the reader that ensureReader goes on to open: the document's own
      -- reader accepts it, the HTML reader accepts any bytes, every other
      -- reader rejects a document of another kind
      let o := match ensureReader extF det with
        | .proceed g => if g = Format.html ∨ g.name = t then "ok" else "err"
        | _ => "err"
      s!"v={v} open={o}"
    | _, _, _ => "bad-op"
  | "c20.obf", [a] => match unhexS a with
    | some a => toString (isFontObfuscation a) | none => "bad-op"
  | "c20.content", [u] => match unhexS u with
    | some u => toString (isContentFile u) | none => "bad-op"
  | "c20.drm", [ms] => match parseDMembers ms with
    | some ms => if checkForDRM ms then "drm" else "ok" | none => "bad-op"
  | _, _ => if op.endsWith "b" || op == "c20.encxml" then handleBytes op args else handleApi op args

end Tabula.C20H
