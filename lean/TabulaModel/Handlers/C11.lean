import TabulaModel.Util
import TabulaModel.Model.HeaderFooter
import TabulaModel.Model.HFExtract
import TabulaModel.Model.HFOffice
/-!
Line protocol of C11 (see harness/c11/c11.go):

* `c11.hf <page>…` — page = `idx:height:frag|frag|…`, frag = `hextext,x,y,w,h,fs`, numbers `n` or `n/d`;
  answer `k` followed by one field per page: the kept fragment ids `0,2,3` or `-`.
* `c11.detect <page>…` — answer `H=<hextext:ispn:p,p;…> F=<…>` (entries sorted, `-` when empty).
* `c11.norm`, `c11.ispn`, `c11.match`, `c11.cpn`, `c11.charlevel`, `c11.docx`, `c11.odt`, `c11.pptx`.
* `c11.x <term> <open|reader> <chain> <spage>…` — one request on a fresh extractor (`Model/HFExtract.lean`):
  spage = `idx:height:frag|…` or `idx:!` (page cannot be read); chain = `-` or calls joined by `;`:
  `P1,3` Pages(1, 3), `P` Pages(), `R2,4` PageRange(2, 4), `H` `F` `B` ExcludeHeaders / Footers / HeadersAndFooters,
  `J` `C` `L` JoinParagraphs / ByColumn / PreserveLayout; term = lines | paras | blocks | ro
  (answer `ok <keys>`: the fragments the page detectors are handed, as a sorted multiset of `hextext@x@y` joined
  by `;`), frags (the same for `Fragments()`), doc (`ok num:count,…`), analyze (`ok count`); `err` for an error.
* `c11.xh <open|reader> <spage>… | <step>…` — a script on ONE source: step = `parent/chain/term`; answers one
  field per step: `e` error, `o` value (not modelled further), `k=<keys>` / `d=<num:count,…>` / `a=<count>`.
* `c11.xtext <open|reader> <chain> W=<width,…> <spage>… | <entry>…` — `Text()`; widths = `page.Width()` per page;
  entry = `k/ids/cg/pl/jp/bc/asm`: for page index k and the kept-id list ids (`0.2.3` or `-`): whether the reading
  order detector finds more than one column, and the four assemblers' outputs (hex) on those fragments, supplied by
  the harness (C09's code); answer `ok <hextext>` or `err`, or `no-render` when the model keeps a list the table
  has no entry for.
* `c11.rootcl l=<hexlist>` — `tabula.isCharacterLevel` (extractor.go) on fragments with these texts.
* `c11.mcol <n> <width> <cg>` — `tabula.detectMultiColumn` on n fragments, page width, detector's verdict cg.
* `c11.otext <text|md> <exH> <exF> h=<hexlist> f=<hexlist> <elem>…` — DOCX/ODT `TextWithOptions` / `MarkdownWithOptions`
  on plain paragraphs (`p<hex>`) and tables (`t<hex>`: the table's rendering, supplied); answer the hex text.
* `c11.ptext <exH> <exF> <slide>…` — PPTX `TextWithOptions` as `Extractor.Text` calls it; slide =
  `hextitle/hexnotes/blk;blk;…` (`~` = no blocks), blk = `T|hexph|p,p,…` (`~` = no paragraphs); answer the hex text.
* `c11.awhf <i> <page>…` — `AnalyzeWithHeaderFooterFiltering(pages, i).Stats.FragmentCount`: count or `none`.
-/
namespace Tabula.C11H
open Tabula Tabula.HF

def toStr (b : Bytes) : Str := b.map (·.toNat)
def ofStr (s : Str) : Bytes := s.map UInt8.ofNat
def hexS (s : Str) : String := hex (ofStr s)
def unhexS (s : String) : Option Str := (unhex s).map toStr

def parseRat (s : String) : Option Rat :=
  match s.splitOn "/" with
  | [n] => n.toInt?.map fun i => (i : Rat)
  | [n, d] => do
    let n ← n.toInt?
    let d ← d.toNat?
    if d = 0 then none else pure ((n : Rat) / (d : Rat))
  | _ => none

def parseFrag (s : String) : Option Frag :=
  match s.splitOn "," with
  | [t, x, y, w, h, fs] => do
    pure { text := ← unhexS t, x := ← parseRat x, y := ← parseRat y, w := ← parseRat w, h := ← parseRat h, fs := ← parseRat fs }
  | _ => none

def parsePage (s : String) : Option Page :=
  match s.splitOn ":" with
  | [i, h, fs] => do
    let frags ← if fs == "" then some [] else (fs.splitOn "|").mapM parseFrag
    pure { index := ← i.toInt?, height := ← parseRat h, frags := frags }
  | _ => none

def parseHexList (s : String) : Option (List Str) :=
  if s == "" then some [] else (s.splitOn ",").mapM unhexS

def b01 (b : Bool) : String := if b then "1" else "0"

def keptField (res : Result) (p : Page) : String :=
  let kept :=
    if isCharacterLevel p.frags then
      let gone := removedLines res p.index p.frags p.height
      p.frags.zipIdx.filter fun fi => !(gone.any fun g => g.contains fi.1)
    else
      let b := bands res.cfg p.frags p.height
      p.frags.zipIdx.filter fun fi => !isInHeaderFooter res p.index b fi.1
  if kept.map (·.1) != filterFragments res p.index p.frags p.height then "model-inconsistent"
  else if kept.isEmpty then "-"
  else ",".intercalate (kept.map fun fi => toString fi.2)

def insertStr (a : String) : List String → List String
  | [] => [a]
  | b :: l => if a ≤ b then a :: b :: l else b :: insertStr a l

def regionsField (rs : List Region) : String :=
  if rs.isEmpty then "-"
  else
    let es := rs.map fun r =>
      s!"{hexS r.text}:{b01 r.isPageNumber}:{",".intercalate (r.pages.map toString)}"
    ";".intercalate (es.foldr insertStr [])

/-! ### extractor-level ops -/
section Extract
open Tabula.HFX Tabula.Builder Tabula.PageSel Tabula.TextPipe

def parseSPage (s : String) : Option (Option RawPage) :=
  match s.splitOn ":" with
  | [_, "!"] => some none
  | [_, h, fs] => do
    let frags ← if fs == "" then some [] else (fs.splitOn "|").mapM parseFrag
    pure (some { height := ← parseRat h, frags := frags })
  | _ => none

def parseIntList (s : String) : Option (List Int) :=
  if s == "" then some [] else (s.splitOn ",").mapM (·.toInt?)

def parseCall (s : String) : Option BCall :=
  match s with
  | "H" => some .excludeHeaders
  | "F" => some .excludeFooters
  | "B" => some .excludeHeadersAndFooters
  | "J" => some .joinParagraphs
  | "C" => some .byColumn
  | "L" => some .preserveLayout
  | _ =>
    if s.startsWith "P" then (parseIntList (s.drop 1).toString).map BCall.pages
    else if s.startsWith "R" then
      match parseIntList (s.drop 1).toString with
      | some [a, b] => some (.pageRange a b)
      | _ => none
    else none

def parseChain (s : String) : Option (List BCall) :=
  if s == "-" then some [] else (s.splitOn ";").mapM parseCall

def parseBase (s : String) : Option Ext :=
  if s == "open" then some baseOpen else if s == "reader" then some baseReader else none

def ratStr (q : Rat) : String := if q.den = 1 then toString q.num else s!"{q.num}/{q.den}"

def fragKeyStr (f : Frag) : String := s!"{hexS f.text}@{ratStr f.x}@{ratStr f.y}"

def keysField (fs : List Frag) : String :=
  if fs.isEmpty then "-" else ";".intercalate ((fs.map fragKeyStr).foldr insertStr [])

def countsField (l : List (Nat × Nat)) : String :=
  if l.isEmpty then "-" else ",".intercalate (l.map fun p => s!"{p.1}:{p.2}")

inductive XTerm where
  | inputs (t : Term) | frags | doc | analyze | text | other (t : Term) | non (t : NonTerm)

def parseXTerm (s : String) : Option XTerm :=
  match s with
  | "lines" => some (.inputs .lines)
  | "paras" => some (.inputs .paragraphs)
  | "blocks" => some (.inputs .blocks)
  | "ro" => some (.inputs .readingOrder)
  | "headings" => some (.other .headings)
  | "lists" => some (.other .lists)
  | "frags" => some .frags
  | "doc" => some .doc
  | "analyze" => some .analyze
  | "text" => some .text
  | "markdown" => some (.other .toMarkdown)
  | "count" => some (.non .pageCount)
  | "charlevel" => some (.non .isCharacterLevel)
  | "multicol" => some (.non .isMultiColumn)
  | _ => none

def xAnswer (t : XTerm) (src : Source) (e0 : Ext) (cs : List BCall) : String :=
  match t with
  | .inputs k => match inputsCall k src e0 cs with
    | .ok ins => "ok " ++ keysField ins.flatten
    | .error _ => "err"
  | .frags => match fragmentsCallOf src e0 cs with
    | .ok fs => "ok " ++ keysField fs
    | .error _ => "err"
  | .doc => match HFX.documentCall src e0 cs with
    | .ok l => "ok " ++ countsField l
    | .error _ => "err"
  | .analyze => match analyzeCall src e0 cs with
    | .ok n => s!"ok {n}"
    | .error _ => "err"
  | _ => "bad-op"

/-- split the arguments at the `|` token -/
def splitBar (args : List String) : List String × List String :=
  (args.takeWhile (· ≠ "|"), (args.dropWhile (· ≠ "|")).drop 1)

structure HState where
  store : Store
  vars : List Nat          -- script variable ↦ index into `store.exts`

/-- derive a chain from store index `i`; returns the index of the last extractor made -/
def deriveChain (w : World) (s : Store) (i : Nat) : List BCall → Store × Nat
  | [] => (s, i)
  | c :: cs =>
    let s1 := (step w s (.derive i c)).1
    deriveChain w s1 (s1.exts.length - 1) cs

def resField : Res → String
  | .err | .bad => "e"
  | _ => "o"

def histStepAnswer (src : Source) (st : HState) (step : String) : Option (HState × String) :=
  match step.splitOn "/" with
  | [par, ch, tm] => do
    let p ← par.toNat?
    let cs ← parseChain ch
    let t ← parseXTerm tm
    let i ← st.vars[p]?
    let w := worldOf src
    let (s1, j) := deriveChain w st.store i cs
    let vars := if cs.isEmpty then st.vars else st.vars ++ [j]
    match t with
    | .inputs k =>
      let r := histInputs src k s1 j
      pure (⟨r.1, vars⟩, match r.2 with
        | .ok ins => "k=" ++ keysField ins.flatten
        | .error _ => "e")
    | .frags =>
      let sr := terminal w .fragments s1 j
      pure (⟨sr.1, vars⟩, match viaFrame (fragmentsOp src) sr.2 with
        | .ok fs => "k=" ++ keysField fs
        | .error _ => "e")
    | .doc =>
      let sr := terminal w .document s1 j
      let o := (s1.exts[j]?.map (·.opts)).getD {}
      pure (⟨sr.1, vars⟩, match viaFrame (documentCounts o src) sr.2 with
        | .ok l => "d=" ++ countsField l
        | .error _ => "e")
    | .analyze =>
      let sr := terminal w .analyze s1 j
      let o := (s1.exts[j]?.map (·.opts)).getD {}
      pure (⟨sr.1, vars⟩, match viaFrame (analyzeCount o src) sr.2 with
        | .ok n => s!"a={n}"
        | .error _ => "e")
    | .text =>
      let sr := terminal w .text s1 j
      -- the text itself needs C09's assemblers; here only "a requested page cannot be read"
      let o := (s1.exts[j]?.map (·.opts)).getD {}
      pure (⟨sr.1, vars⟩, match viaFrame (inputsOf o src) sr.2 with
        | .ok _ => "o"
        | .error _ => "e")
    | .other k =>
      let sr := terminal w k s1 j
      let o := (s1.exts[j]?.map (·.opts)).getD {}
      pure (⟨sr.1, vars⟩, match viaFrame (inputsOf o src) sr.2 with
        | .ok _ => "o"
        | .error _ => "e")
    | .non k =>
      let sr := nonTerminal w k s1 j
      -- IsCharacterLevel / IsMultiColumn read page 1
      let bad := match k with
        | .pageCount => false
        | _ => match readPage src 0 with | .ok _ => false | .error _ => true
      pure (⟨sr.1, vars⟩, if bad then "e" else resField sr.2)
  | _ => none

def histAnswers (src : Source) : HState → List String → Option (List String)
  | _, [] => some []
  | st, x :: xs => do
    let (st', a) ← histStepAnswer src st x
    let rest ← histAnswers src st' xs
    pure (a :: rest)

def parseIds (s : String) : Option (List Nat) :=
  if s == "-" then some [] else (s.splitOn ".").mapM (·.toNat?)

structure RenderEntry where
  page : Nat
  ids : List Nat
  cg : Bool
  pl : HF.Str
  jp : HF.Str
  bc : HF.Str
  asm : HF.Str

def parseEntry (s : String) : Option RenderEntry :=
  match s.splitOn "/" with
  | [k, ids, cg, pl, jp, bc, asm] => do
    pure { page := ← k.toNat?, ids := ← parseIds ids, cg := cg == "1",
           pl := ← unhexS pl, jp := ← unhexS jp, bc := ← unhexS bc, asm := ← unhexS asm }
  | _ => none

/-- the ids (positions in the page's raw fragments) of a sublist `fs` of the raw fragments -/
def idsOf : List Frag → List Frag → Nat → List Nat
  | [], _, _ => []
  | _ :: _, [], _ => []
  | f :: fs, r :: raw, i => if f = r then i :: idsOf fs raw (i + 1) else idsOf (f :: fs) raw (i + 1)

def lookupEntry (tbl : List RenderEntry) (src : Source) (k : Nat) (fs : List Frag) : Option RenderEntry :=
  let raw := match readPage src k with | .ok rp => rp.frags | .error _ => []
  tbl.find? fun e => e.page == k && e.ids == idsOf fs raw 0

/-- marker the renderers return when the table has no entry (never a legal text: byte 0xFF 0x00) -/
def noRender (k : Nat) : HF.Str := [255, 0, k]

def renderersOf (tbl : List RenderEntry) (src : Source) : Renderers where
  ocr _ := none
  columnsGt1 k fs := match lookupEntry tbl src k fs with | some e => e.cg | none => false
  render m k fs := match lookupEntry tbl src k fs with
    | some e => (match m with
      | .preserveLayout => e.pl | .paragraphs => e.jp | .byColumn => e.bc | .plain => e.asm)
    | none => noRender k

end Extract

/-! ### DOCX / ODT / PPTX loops -/
section Office
open Tabula.HFOffice

def parseElem (s : String) : Option Elem :=
  if s.startsWith "p" then (unhexS (s.drop 1).toString).map Elem.para
  else if s.startsWith "t" then (unhexS (s.drop 1).toString).map Elem.table
  else none

def parseTilde {α : Type} (sep : String) (f : String → Option α) (s : String) : Option (List α) :=
  if s == "~" then some [] else (s.splitOn sep).mapM f

def parseBlock (s : String) : Option Block :=
  match s.splitOn "|" with
  | [t, ph, ps] => do
    pure { isTitle := t == "1", placeholder := ← unhexS ph, paras := ← parseTilde "," unhexS ps }
  | _ => none

def parseSlide (s : String) : Option Slide :=
  match s.splitOn "/" with
  | [t, n, bs] => do
    pure { title := ← unhexS t, notes := ← unhexS n, content := ← parseTilde ";" parseBlock bs }
  | _ => none

end Office

def mkCand (t : Str) : Cand := { text := t, x := 0, y := 0, w := 0, h := 0, page := 0 }
def mkFrag (t : Str) : Frag := { text := t, x := 0, y := 0, w := 0, h := 0, fs := 0 }

def handle (op : String) (args : List String) : String :=
  match op, args with
  | "c11.hf", ps => match ps.mapM parsePage with
    | some pages =>
      let res := detect defaultConfig pages
      " ".intercalate ("k" :: pages.map (keptField res))
    | none => "bad-op"
  | "c11.detect", ps => match ps.mapM parsePage with
    | some pages =>
      let res := detect defaultConfig pages
      s!"H={regionsField res.headers} F={regionsField res.footers}"
    | none => "bad-op"
  | "c11.x", t :: b :: ch :: ps =>
    match parseXTerm t, parseBase b, parseChain ch, ps.mapM parseSPage with
    | some t, some e0, some cs, some src => xAnswer t src e0 cs
    | _, _, _, _ => "bad-op"
  | "c11.xh", b :: rest =>
    let (ps, steps) := splitBar rest
    match parseBase b, ps.mapM parseSPage with
    | some e0, some src =>
      let s0 : Builder.Store := if b == "reader" then Builder.readerBase else Builder.openBase
      let _ := e0
      match histAnswers src ⟨s0, [0]⟩ steps with
      | some as => if as.isEmpty then "-" else " ".intercalate as
      | none => "bad-op"
    | _, _ => "bad-op"
  | "c11.xtext", b :: ch :: ws :: rest =>
    let (ps, es) := splitBar rest
    let widths := ((ws.drop 2).toString.splitOn ",").map fun w => (parseRat w).getD 0
    match parseBase b, parseChain ch, ps.mapM parseSPage, es.mapM parseEntry with
    | some e0, some cs, some src0, some tbl =>
      let src : HFX.Source := (src0.zip widths).map fun p => p.1.map fun rp => { rp with width := p.2 }
      if src.length != src0.length then "bad-op" else
      match HFX.textCallOf (renderersOf tbl src) src e0 cs with
      | .ok t => if t.any (· == 255) then "no-render" else "ok " ++ hexS t
      | .error _ => "err"
    | _, _, _, _ => "bad-op"
  | "c11.otext", kind :: exH :: exF :: hs :: fs :: es =>
    match parseHexList (hs.drop 2).toString, parseHexList (fs.drop 2).toString, es.mapM parseElem with
    | some hs, some fs, some es =>
      let ps : HFOffice.Parts := ⟨hs, fs, exH == "1", exF == "1"⟩
      if kind == "text" then hexS (HFOffice.officeText ps es)
      else if kind == "md" then hexS (HFOffice.officeMarkdown ps es)
      else "bad-op"
    | _, _, _ => "bad-op"
  | "c11.ptext", exH :: exF :: ss => match ss.mapM parseSlide with
    | some slides => hexS (HFOffice.pptxText (exH == "1") (exF == "1") slides)
    | none => "bad-op"
  | "c11.awhf", i :: ps => match i.toInt?, ps.mapM parsePage with
    | some i, some pages => match HFX.analyzeWithHFInput pages i with
      | some fs => toString fs.length
      | none => "none"
    | _, _ => "bad-op"
  | "c11.rootcl", [l] => match parseHexList (l.drop 2).toString with
    | some ts => b01 (HFX.charLevelRoot (ts.map mkFrag)) | none => "bad-op"
  | "c11.mcol", [n, w, cg] => match n.toNat?, parseRat w with
    | some n, some w =>
      let R : HFX.Renderers := { ocr := fun _ => none, columnsGt1 := fun _ _ => cg == "1", render := fun _ _ _ => [] }
      b01 (HFX.multiColRoot R w 0 (List.replicate n (mkFrag [120])))
    | _, _ => "bad-op"
  | "c11.norm", [h] => match unhexS h with
    | some s => hexS (normalize s) | none => "bad-op"
  | "c11.ispn", [h] => match unhexS h with
    | some s => b01 (isPageNumberPattern s) | none => "bad-op"
  | "c11.match", [a, b, pn] => match unhexS a, unhexS b with
    | some a, some b => b01 (textsMatch a b (pn == "1")) | _, _ => "bad-op"
  | "c11.cpn", [l] => match parseHexList (l.drop 2).toString with
    | some ts => b01 (containsPageNumberPattern (ts.map mkCand)) | none => "bad-op"
  | "c11.charlevel", [l] => match parseHexList (l.drop 2).toString with
    | some ts => b01 (isCharacterLevel (ts.map mkFrag)) | none => "bad-op"
  | "c11.docx", [t, hs, fs, exH, exF] | "c11.odt", [t, hs, fs, exH, exF] =>
    match unhexS t, parseHexList (hs.drop 2).toString, parseHexList (fs.drop 2).toString with
    | some t, some hs, some fs => b01 (shouldExcludeParagraph t hs fs (exH == "1") (exF == "1"))
    | _, _, _ => "bad-op"
  | "c11.pptx", [h] => match unhexS h with
    | some s => b01 (isFooterPlaceholder s) ++ b01 (isHeaderPlaceholder s) | none => "bad-op"
  | _, _ => "bad-op"

end Tabula.C11H
