import TabulaModel.Util
import TabulaModel.Model.HeaderFooter
/-!
Line protocol of C11 (see harness/c11/c11.go):

* `c11.hf <page>…` — page = `idx:height:frag|frag|…`, frag = `hextext,x,y,w,h,fs`, numbers `n` or `n/d`;
  answer `k` followed by one field per page: the kept fragment ids `0,2,3` or `-`.
* `c11.detect <page>…` — answer `H=<hextext:ispn:p,p;…> F=<…>` (entries sorted, `-` when empty).
* `c11.norm`, `c11.ispn`, `c11.match`, `c11.cpn`, `c11.charlevel`, `c11.docx`, `c11.odt`, `c11.pptx`.
-/
namespace Tabula.C11H
open Tabula Tabula.HF

def toStr (b : Bytes) : Str := b.map (·.toNat)
def ofStr (s : Str) : Bytes := s.map UInt8.ofNat
def hexS (s : Str) : String := hex (ofStr s)
def unhexS (s : String) : Option Str := (unhex s).map toStr

def parseRat (s : String) : Option Rat :=
  match s.splitOn "/" with
  | [n] => n.toInt?.map fun i => (i : Rat)
  | [n, d] => do
    let n ← n.toInt?
    let d ← d.toNat?
    if d = 0 then none else pure ((n : Rat) / (d : Rat))
  | _ => none

def parseFrag (s : String) : Option Frag :=
  match s.splitOn "," with
  | [t, x, y, w, h, fs] => do
    pure { text := ← unhexS t, x := ← parseRat x, y := ← parseRat y, w := ← parseRat w, h := ← parseRat h, fs := ← parseRat fs }
  | _ => none

def parsePage (s : String) : Option Page :=
  match s.splitOn ":" with
  | [i, h, fs] => do
    let frags ← if fs == "" then some [] else (fs.splitOn "|").mapM parseFrag
    pure { index := ← i.toInt?, height := ← parseRat h, frags := frags }
  | _ => none

def parseHexList (s : String) : Option (List Str) :=
  if s == "" then some [] else (s.splitOn ",").mapM unhexS

def b01 (b : Bool) : String := if b then "1" else "0"

def keptField (res : Result) (p : Page) : String :=
  let b := bands res.cfg p.frags p.height
  let cl := isCharacterLevel p.frags
  let kept := p.frags.zipIdx.filter fun fi => !isInHeaderFooter res p.index b cl fi.1
  if kept.map (·.1) != filterFragments res p.index p.frags p.height then "model-inconsistent"
  else if kept.isEmpty then "-"
  else ",".intercalate (kept.map fun fi => toString fi.2)

def insertStr (a : String) : List String → List String
  | [] => [a]
  | b :: l => if a ≤ b then a :: b :: l else b :: insertStr a l

def regionsField (rs : List Region) : String :=
  if rs.isEmpty then "-"
  else
    let es := rs.map fun r =>
      s!"{hexS r.text}:{b01 r.isPageNumber}:{",".intercalate (r.pages.map toString)}"
    ";".intercalate (es.foldr insertStr [])

def mkCand (t : Str) : Cand := { text := t, x := 0, y := 0, w := 0, h := 0, page := 0 }
def mkFrag (t : Str) : Frag := { text := t, x := 0, y := 0, w := 0, h := 0, fs := 0 }

def handle (op : String) (args : List String) : String :=
  match op, args with
  | "c11.hf", ps => match ps.mapM parsePage with
    | some pages =>
      let res := detect defaultConfig pages
      " ".intercalate ("k" :: pages.map (keptField res))
    | none => "bad-op"
  | "c11.detect", ps => match ps.mapM parsePage with
    | some pages =>
      let res := detect defaultConfig pages
      s!"H={regionsField res.headers} F={regionsField res.footers}"
    | none => "bad-op"
  | "c11.norm", [h] => match unhexS h with
    | some s => hexS (normalize s) | none => "bad-op"
  | "c11.ispn", [h] => match unhexS h with
    | some s => b01 (isPageNumberPattern s) | none => "bad-op"
  | "c11.match", [a, b, pn] => match unhexS a, unhexS b with
    | some a, some b => b01 (textsMatch a b (pn == "1")) | _, _ => "bad-op"
  | "c11.cpn", [l] => match parseHexList (l.drop 2).toString with
    | some ts => b01 (containsPageNumberPattern (ts.map mkCand)) | none => "bad-op"
  | "c11.charlevel", [l] => match parseHexList (l.drop 2).toString with
    | some ts => b01 (isCharacterLevel (ts.map mkFrag)) | none => "bad-op"
  | "c11.docx", [t, hs, fs, exH, exF] | "c11.odt", [t, hs, fs, exH, exF] =>
    match unhexS t, parseHexList (hs.drop 2).toString, parseHexList (fs.drop 2).toString with
    | some t, some hs, some fs => b01 (shouldExcludeParagraph t hs fs (exH == "1") (exF == "1"))
    | _, _, _ => "bad-op"
  | "c11.pptx", [h] => match unhexS h with
    | some s => b01 (isFooterPlaceholder s) ++ b01 (isHeaderPlaceholder s) | none => "bad-op"
  | _, _ => "bad-op"

end Tabula.C11H
