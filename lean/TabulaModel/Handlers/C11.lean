import TabulaModel.Util
namespace Tabula.C11H

def handle (_op : String) (_args : List String) : String := "bad-op"

end Tabula.C11H
