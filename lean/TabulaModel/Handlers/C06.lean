import TabulaModel.Util
import TabulaModel.Model.CSParser
import TabulaModel.Model.LexPos
/-!
Line protocol of property C06.

* `c06.obj <hex>` — `core.NewParser(r).ParseObject()` called until it fails:
  the objects separated by spaces, then `eof` (io.EOF) or `err`.
* `c06.cs <hex>`  — `contentstream.NewParser(b).Parse()`: `ok` followed by one
  `<hex operator>(<operand>,<operand>,…)` per operation, or `err`.
* `c06.lex <hex>` — `core.NewLexer(r).NextToken()` until EOF or an error: one
  `<code><hex value>` per token (`C` comment, `K` keyword, `I` integer, `F` real,
  `S` string, `H` hex string digits, `N` name, `[` `]` `D` `d` delimiters,
  `R`), then `eof` or `err`.

* `c06.lexp <hex>` — the same run of `NextToken` calls with `Token.Pos` and `Token.SkippedBytes`:
  one `<code><hex value>@<Pos>+<hex SkippedBytes>` per token (the `TokenEOF` token included, as
  `E-@…`), then `eof` or `err`.
* `c06.win <hex>` — `core.NewParser(r)`, then `ParseObject()` until it fails: the parser's window
  `<currentToken>|<peekToken>|<0/1: p.err != nil>` (tokens as in `c06.lex`, `nil` for a nil pointer)
  after `NewParser` and after every successful call, then `eof` or `err`.
* `c06.operand <hex>` — `contentstream.NewParser(b).parseOperand()` (hook `VerifParseOperand`):
  `<operand> <p.pos after the call>` or `err`.

Objects are s-expressions with hex atoms:
`n | t | f | i<decimal> | r<decimal> | s<hex> | /<hex> | [a,b,…] |
<key:value,…>` (keys in byte order) `| R<num>.<gen>`.
-/
namespace Tabula.C06H
open Tabula Tabula.Pdf

def toStr (b : Bytes) : Str := b.map (·.toNat)
def hexS (s : Str) : String := hex (s.map UInt8.ofNat)

/-- canonical decimal of a normalised real -/
def realText (neg : Bool) (mant scale : Nat) : String :=
  let ds := (toString mant).toList
  let ds := List.replicate (scale + 1 - ds.length) '0' ++ ds
  let ip := ds.take (ds.length - scale)
  let fp := ds.drop (ds.length - scale)
  (if neg then "-" else "") ++ String.ofList ip ++ (if fp.isEmpty then "" else "." ++ String.ofList fp)

def ltStr : Str → Str → Bool
  | [], [] => false
  | [], _ :: _ => true
  | _ :: _, [] => false
  | a :: r, b :: s => if a < b then true else if b < a then false else ltStr r s

def insertKV (e : Str × String) : List (Str × String) → List (Str × String)
  | [] => [e]
  | x :: r => if ltStr e.1 x.1 then e :: x :: r else x :: insertKV e r

def sortKV (l : List (Str × String)) : List (Str × String) := l.foldr insertKV []

mutual
def sexpr : Obj → String
  | .null => "n"
  | .bool true => "t"
  | .bool false => "f"
  | .int i => "i" ++ toString i
  | .real neg m s => "r" ++ realText neg m s
  | .str s => "s" ++ hexS s
  | .name s => "/" ++ hexS s
  | .arr xs => "[" ++ ",".intercalate (sexprList xs) ++ "]"
  | .dict kv => "<" ++ ",".intercalate ((sortKV (sexprKV kv)).map fun e => hexS e.1 ++ ":" ++ e.2) ++ ">"
  | .ref n g => "R" ++ toString n ++ "." ++ toString g
def sexprList : List Obj → List String
  | [] => []
  | x :: xs => sexpr x :: sexprList xs
def sexprKV : List (Str × Obj) → List (Str × String)
  | [] => []
  | (k, v) :: r => (k, sexpr v) :: sexprKV r
end

def objLine (inp : Str) : String :=
  let r := coreParseAll inp
  let e := match r.2 with | .eof => "eof" | .err => "err"
  " ".intercalate (r.1.map sexpr ++ [e])

def csLine (inp : Str) : String :=
  match CS.csParse inp with
  | none => "err"
  | some ops =>
    " ".intercalate ("ok" :: ops.map fun o => hexS o.op ++ "(" ++ ",".intercalate (o.operands.map sexpr) ++ ")")

def tokText : Token → String
  | .eof => "E-"
  | .comment v => "C" ++ hexS v
  | .keyword v => "K" ++ hexS v
  | .integer v => "I" ++ hexS v
  | .real v => "F" ++ hexS v
  | .str v => "S" ++ hexS v
  | .hexstr v => "H" ++ hexS v
  | .name v => "N" ++ hexS v
  | .arrStart => "[5b"
  | .arrEnd => "]5d"
  | .dictStart => "D3c3c"
  | .dictEnd => "d3e3e"
  | .ref => "R52"

def lexLoop : Nat → Str → List String → List String
  | 0, _, acc => acc ++ ["noprogress"]
  | n + 1, inp, acc =>
    match nextToken inp with
    | none => acc ++ ["err"]
    | some (.eof, _) => acc ++ ["eof"]
    | some (t, r) => lexLoop n r (acc ++ [tokText t])

def lexLine (inp : Str) : String := " ".intercalate (lexLoop (inp.length + 2) inp [])

def lexEndText : LexEnd → String
  | .eof => "eof" | .err => "err" | .fuel => "noprogress"

def lexpLine (inp : Str) : String :=
  let r := lexTokens inp
  " ".intercalate (r.1.map (fun pt => tokText pt.tok ++ "@" ++ toString pt.pos ++ "+" ++ hexS pt.skipped) ++
    [lexEndText r.2])

def optTokText : Option Token → String
  | none => "nil"
  | some t => tokText t

def winLine (inp : Str) : String :=
  let r := windowTrace inp
  let e := match r.2 with | some .eof => "eof" | some .err => "err" | none => "noprogress"
  " ".intercalate (r.1.map (fun w => optTokText w.cur ++ "|" ++ optTokText w.peek ++ "|" ++
    (if w.err then "1" else "0")) ++ [e])

def operandLine (inp : Str) : String :=
  match csOperandAt inp with
  | none => "err"
  | some (o, pos) => sexpr o ++ " " ++ toString pos

def handle (op : String) (args : List String) : String :=
  match op, args with
  | "c06.obj", [h] => match unhex h with
    | some b => objLine (toStr b) | none => "bad-op"
  | "c06.cs", [h] => match unhex h with
    | some b => csLine (toStr b) | none => "bad-op"
  | "c06.lex", [h] => match unhex h with
    | some b => lexLine (toStr b) | none => "bad-op"
  | "c06.lexp", [h] => match unhex h with
    | some b => lexpLine (toStr b) | none => "bad-op"
  | "c06.win", [h] => match unhex h with
    | some b => winLine (toStr b) | none => "bad-op"
  | "c06.operand", [h] => match unhex h with
    | some b => operandLine (toStr b) | none => "bad-op"
  | _, _ => "bad-op"

end Tabula.C06H
