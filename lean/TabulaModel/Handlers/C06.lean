import TabulaModel.Util
namespace Tabula.C06H

def handle (_op : String) (_args : List String) : String := "bad-op"

end Tabula.C06H
