import TabulaModel.Util
import TabulaModel.Model.PageSel
import TabulaModel.Model.Builder
import TabulaModel.Model.TextPipe
import TabulaModel.Model.BuilderAuto
import TabulaModel.Model.BuilderMem
import TabulaModel.Model.Dispatch
/-
Line protocol of C10.

  calls (one token each): P<i.j.k> | P | R<s>.<e> | H | F | B | J | C | L
  c10.psel <n> <call>*                 -> ok <i,j,k|-> | err
  c10.text <hex,hex,…|0> <call>*       -> ok <hex> | err      (per-page texts; 0 = no pages)
  c10.frag <p;p;…|0> <call>*           -> ok <hex.hex…|~> | err  (p = hex.hex… | ~ for a page without fragments)
  c10.doc  <n> <call>*                 -> ok <number>@<source>,… | err
  c10.bld  <f|r>,<openOk 0|1>,<n|x> <op>*   ops: d<i>:<call> t<i> g<i> u<i> k<i> c<i> m<i> x<i>
      -> <res>/<fd> … | <pages>;<HFCLJ>;<err owns opened> …
  c10.pipe <n> <page>|<page>|… <call>*  -> ok <hex> | err
      page = <variant>/<variant|=>  (fragments as read / after the header-footer filter; = : unchanged)
      variant = <empty><charLevel><multiColumn>:<t>,<t>,<t>,<t>  (texts of extractPreserveLayout,
      extractWithParagraphs, extractByColumn, assembleText; hex, - = empty, =k = same as text k)
  c10.head <c0.c1.…|-> <call>*         -> ok <page:j,…|-> | err   (c_k headings on page k; PageIndex of each returned heading)
  c10.anl  <c0.c1.…|-> <call>*         -> ok <Index@page,…|-> | err  (c_k elements on page k; numbering of Analyze)
  c10.sel  <call>*                     -> <accumulated pages|->;<inverted range 0|1>
  c10.term <op letter> <n> <call>*     -> ok <i,j,k|-> | err      (pages any terminal operation works on)
  c10.lin  <world of bld or life> <op>* -> <res> …     (answers predicted from each receiver's chain of calls)
  c10.end  <world of bld or life> <op>* -> <fd after the ops> <fd after closing every extractor>
  c10.life <f|r>,<ext format>,<present 0|1>,<detected format|unknown|e>,<parseOk 0|1>,<n|x> <op>*
      ops as above plus q w l a o z e s i b (the other terminal operations) and h (IsCharacterLevel)
      -> <-|closed|n<k>|flag|ok|err|bad>/<fd> … | <pages>;<HFCLJ>;<err owns opened> …
  c10.auto <world of bld or life> <op>* -> <states after op 1> <states after op 2> … | <final states> <owners>
      states = one letter per extractor: I(dle) H(olding) B(orrowed)   (the life-cycle automaton)
      owners = ownsReader of every extractor at the end, by the closed form `holdsAtEnd` over its own
      operations (well-scoped histories on Open bases; `unscoped` / `lent` otherwise)
  c10.ecls <world of life> <op>*        -> per op: - | ok | bad | builder:<s>:<t> | nofile | open:<how> |
      pdfonly | count | range:<p>:<n> | nopages | other                (which error, from the chain of calls)
  c10.rerr <n> <call>*                  -> ok | builder:<s>:<t> | range:<p>:<n> | nopages   (Fragments of a chain on an n-page PDF)
  c10.mem  <ok|bad>,<n|x> <op>*         -> <res> … | <pages>;<HFCLJ>;<err owns opened> …    (FromHTMLString / failing FromHTMLReader bases)
  c10.comb <cols:w:h:f.l.b.p.hd.ls.el;…|0> <call>*  -> ro <ColumnCount> <w> <h> | an <7 counters> <Stats.ColumnCount> <w> <h>  | err
      (per page: ReadingOrder().ColumnCount, page size, the seven counters of Analyze().Stats of a single-page extraction)
  c10.disp <format> <op letter> <key=val,…> <call>*  -> pdf | unsupported | <key>=<val> | <key>=?
      (the reader call a terminal operation of a non-PDF extractor ends in; val = what that call returned, as the harness hashed it)
-/
namespace Tabula.C10H
open Tabula Tabula.PageSel Tabula.Builder Tabula.TextPipe Tabula.BuilderAuto Tabula.BuilderMem Tabula.Dispatch

def parseInts (s : String) : Option (List Int) :=
  if s == "" then some [] else (s.splitOn ".").mapM (·.toInt?)

def parseCall (s : String) : Option BCall :=
  match s.toList with
  | 'P' :: rest => (parseInts (String.ofList rest)).map BCall.pages
  | 'R' :: rest =>
    match parseInts (String.ofList rest) with
    | some [a, b] => some (.pageRange a b)
    | _ => none
  | ['H'] => some .excludeHeaders
  | ['F'] => some .excludeFooters
  | ['B'] => some .excludeHeadersAndFooters
  | ['J'] => some .joinParagraphs
  | ['C'] => some .byColumn
  | ['L'] => some .preserveLayout
  | _ => none

/-- the chain `Open(f).c₁.c₂…` as one extractor value -/
def chain (cs : List BCall) : Ext := chainFrom {} cs

/-- two routes through the model to the same answer (the per-mechanism one of `PageSel` and
the whole-call one of `Builder`): print it once, or say that they differ -/
def both (a b : String) : String :=
  if a == b then a else "model-paths-disagree:" ++ a ++ "|" ++ b

def showExcept {α : Type} (show_ : α → String) : Except E α → String
  | .ok a => "ok " ++ show_ a
  | .error _ => "err"

/-- a PDF of `n` pages that opens -/
def pdfWorld (n : Nat) : World := ⟨true, some n⟩

def parseTerm (s : String) : Option Term :=
  match s with
  | "t" => some .text | "g" => some .fragments | "u" => some .document | "k" => some .chunks
  | "q" => some .chunksWithConfig | "w" => some .toMarkdown | "l" => some .lines
  | "a" => some .paragraphs | "o" => some .readingOrder | "z" => some .analyze
  | "e" => some .elements | "s" => some .headings | "i" => some .lists | "b" => some .blocks
  | _ => none

def natList (l : List Nat) : String :=
  if l.isEmpty then "-" else ",".intercalate (l.map toString)

def hexS (s : Str) : String := hex (s.map UInt8.ofNat)
def unhexS (s : String) : Option Str := (unhex s).map fun b => b.map (·.toNat)

def lookup {α : Type} (l : List α) (k : Nat) : Except E α :=
  match l[k]? with
  | some a => .ok a
  | none => .error .page

/-- selection of a chained extractor: builder error first, then resolvePages -/
def withSel {α : Type} (cs : List String) (f : List Int → Except E α) (show_ : α → String) : String :=
  match cs.mapM parseCall with
  | none => "bad-op"
  | some calls =>
    let e := chain calls
    if e.err then "err"
    else match f e.opts.pages with
      | .ok a => "ok " ++ show_ a
      | .error _ => "err"

def parseTexts (s : String) : Option (List Str) :=
  if s == "0" then some [] else (s.splitOn ",").mapM unhexS

def parseFragPage (s : String) : Option (List Str) :=
  if s == "~" then some [] else (s.splitOn ".").mapM unhexS

def parseFragPages (s : String) : Option (List (List Str)) :=
  if s == "0" then some [] else (s.splitOn ";").mapM parseFragPage

def showFrags (l : List Str) : String :=
  if l.isEmpty then "~" else ".".intercalate (l.map hexS)

def showDoc (d : List MPage) : String :=
  ",".intercalate (d.map fun p => s!"{p.number}@{p.source}")

def parseWorld (s : String) : Option (Store × World) :=
  match s.splitOn "," with
  | [b, o, n] => do
    let base ← if b == "f" then some openBase else if b == "r" then some readerBase else none
    let ok ← if o == "1" then some true else if o == "0" then some false else none
    let pc ← if n == "x" then some none else n.toNat?.map some
    pure (base, ⟨ok, pc⟩)
  | _ => none

def parseOp (s : String) : Option Op :=
  match s.toList with
  | 'd' :: rest =>
    match (String.ofList rest).splitOn ":" with
    | [i, c] => do pure (.derive (← i.toNat?) (← parseCall c))
    | _ => none
  | 't' :: rest => (String.ofList rest).toNat?.map (Op.term · .text)
  | 'g' :: rest => (String.ofList rest).toNat?.map (Op.term · .fragments)
  | 'u' :: rest => (String.ofList rest).toNat?.map (Op.term · .document)
  | 'k' :: rest => (String.ofList rest).toNat?.map (Op.term · .chunks)
  | 'q' :: rest => (String.ofList rest).toNat?.map (Op.term · .chunksWithConfig)
  | 'w' :: rest => (String.ofList rest).toNat?.map (Op.term · .toMarkdown)
  | 'l' :: rest => (String.ofList rest).toNat?.map (Op.term · .lines)
  | 'a' :: rest => (String.ofList rest).toNat?.map (Op.term · .paragraphs)
  | 'o' :: rest => (String.ofList rest).toNat?.map (Op.term · .readingOrder)
  | 'z' :: rest => (String.ofList rest).toNat?.map (Op.term · .analyze)
  | 'e' :: rest => (String.ofList rest).toNat?.map (Op.term · .elements)
  | 's' :: rest => (String.ofList rest).toNat?.map (Op.term · .headings)
  | 'i' :: rest => (String.ofList rest).toNat?.map (Op.term · .lists)
  | 'b' :: rest => (String.ofList rest).toNat?.map (Op.term · .blocks)
  | 'c' :: rest => (String.ofList rest).toNat?.map (Op.nonTerm · .pageCount)
  | 'm' :: rest => (String.ofList rest).toNat?.map (Op.nonTerm · .isMultiColumn)
  | 'h' :: rest => (String.ofList rest).toNat?.map (Op.nonTerm · .isCharacterLevel)
  | 'x' :: rest => (String.ofList rest).toNat?.map Op.close
  | _ => none

def showRes : Res → String
  | .none => "-"
  | .closed => "closed"
  | .count n => s!"n{n}"
  | .flag => "flag"
  | .pages l => "p" ++ natList l
  | .whole => "whole"
  | .err => "err"
  | .bad => "bad"

/-- what `c10.life` compares: success or failure of a terminal operation -/
def showResLife : Res → String
  | .pages _ => "ok"
  | .whole => "ok"
  | r => showRes r

def parseFmt (s : String) : Option Fmt :=
  match s with
  | "pdf" => some .pdf | "docx" => some .docx | "odt" => some .odt | "xlsx" => some .xlsx
  | "pptx" => some .pptx | "html" => some .html | "epub" => some .epub | "unknown" => some .unknown
  | _ => none

def parseBit (s : String) : Option Bool :=
  if s == "1" then some true else if s == "0" then some false else none

/-- base store, world and extension format of a `c10.life` line -/
def parseLife (s : String) : Option (Store × World × Fmt) :=
  match s.splitOn "," with
  | [b, x, p, d, o, n] => do
    let fmt ← parseFmt x
    let present ← parseBit p
    let detected ← if d == "e" then some none else (parseFmt d).map some
    let parseOk ← parseBit o
    let pc ← if n == "x" then some none else n.toNat?.map some
    let base ← if b == "f" then some (openBaseF fmt) else if b == "r" then some readerBase else none
    pure (base, ⟨openOkOf ⟨present, detected, parseOk⟩ fmt, pc⟩, fmt)
  | _ => none

def bit (b : Bool) : String := if b then "1" else "0"

def showExt (e : Ext) : String :=
  let ps := if e.opts.pages.isEmpty then "-" else ".".intercalate (e.opts.pages.map toString)
  let o := e.opts
  s!"{ps};{bit o.excludeHeaders}{bit o.excludeFooters}{bit o.byColumn}{bit o.preserveLayout}{bit o.joinParagraphs};{bit e.err}{bit e.owns}{bit e.opened}"

/-- one fragment list of one page as the harness describes it -/
structure PipeVariant where
  empty : Bool
  charLevel : Bool
  multiCol : Bool
  texts : List Str     -- preserveLayout, paragraphs, byColumn, plain
  deriving Inhabited

def parsePipeTexts (fields : List String) : Option (List Str) :=
  fields.foldlM (fun (acc : List Str) f =>
    match f.toList with
    | '=' :: rest => do
      let k ← (String.ofList rest).toNat?
      let t ← acc[k]?
      pure (acc ++ [t])
    | _ => do
      let t ← unhexS f
      pure (acc ++ [t])) []

def parsePipeVariant (s : String) : Option PipeVariant :=
  match s.splitOn ":" with
  | [flags, ts] =>
    match flags.toList, parsePipeTexts (ts.splitOn ",") with
    | [e, c, m], some texts =>
      if texts.length == 4 then
        some ⟨e == '1', c == '1', m == '1', texts⟩
      else none
    | _, _ => none
  | _ => none

def parsePipePage (s : String) : Option (PipeVariant × PipeVariant) :=
  match s.splitOn "/" with
  | [a, b] => do
    let raw ← parsePipeVariant a
    let fl ← if b == "=" then some raw else parsePipeVariant b
    pure (raw, fl)
  | _ => none

def parsePipeDoc (s : String) : Option (List (PipeVariant × PipeVariant)) :=
  if s == "0" then some [] else (s.splitOn "|").mapM parsePipePage

def modeIndex : Mode → Nat
  | .preserveLayout => 0 | .paragraphs => 1 | .byColumn => 2 | .plain => 3

/-- the environment the harness described: a page's fragment list is `false` as read and
`true` after the filter -/
def pipeEnv (pages : List (PipeVariant × PipeVariant)) : PageEnv Bool :=
  let get := fun (k : Nat) (v : Bool) => (pages[k]?).map fun p => if v then p.2 else p.1
  { frags := fun k => if k < pages.length then .ok false else .error .page
    filt := fun _ _ => true
    isEmpty := fun k v => ((get k v).map (·.empty)).getD true
    ocr := fun _ => none
    charLevel := fun k v => ((get k v).map (·.charLevel)).getD false
    multiCol := fun k v => ((get k v).map (·.multiCol)).getD false
    render := fun m k v => ((get k v).bind fun p => p.texts[modeIndex m]?).getD [] }

/-- a `c10.bld` world (three fields) or a `c10.life` world (six): base store, world, extension
format, the base extractor, and whether answers are compared at the `ok`/`err` level -/
def parseAnyWorld (s : String) : Option (Store × World × Fmt × Ext × Bool) :=
  match (s.splitOn ",").length with
  | 3 => (parseWorld s).bind fun (s0, w) => (s0.exts[0]?).map fun e0 => (s0, w, Fmt.pdf, e0, false)
  | 6 => (parseLife s).bind fun (s0, w, fmt) => (s0.exts[0]?).map fun e0 => (s0, w, fmt, e0, true)
  | _ => none

def parseCounts (s : String) : Option (List Nat) :=
  if s == "-" then some [] else (s.splitOn ".").mapM (·.toNat?)

def showPairs (sep : String) (l : List (Nat × Nat)) : String :=
  if l.isEmpty then "-" else ",".intercalate (l.map fun (a, b) => s!"{a}{sep}{b}")


def showLS : LS → String
  | .idle => "I" | .holding => "H" | .borrowed => "B"

def showOpenErr : OpenErr → String
  | .missing => "missing" | .detect => "detect" | .mismatch => "mismatch"
  | .unsupported => "unsupported" | .parse => "parse"

def showEClass : EClass → String
  | .builder s t => s!"builder:{s}:{t}"
  | .noFile => "nofile"
  | .opening o => "open:" ++ showOpenErr o
  | .pdfOnly => "pdfonly"
  | .count => "count"
  | .range p n => s!"range:{p}:{n}"
  | .noPages => "nopages"
  | .other => "other"

/-- the `FileFacts` of a `c10.life` world -/
def parseLifeFacts (s : String) : Option (FileFacts × Fmt) :=
  match s.splitOn "," with
  | [_, x, p, d, o, _] => do
    let fmt ← parseFmt x
    let present ← parseBit p
    let detected ← if d == "e" then some none else (parseFmt d).map some
    let parseOk ← parseBit o
    pure (⟨present, detected, parseOk⟩, fmt)
  | _ => none

/-- per operation: `-` for a configuration method, `bad` for a receiver that does not exist,
otherwise the class of the error or `ok` -/
def showErrRun (w : World) (oe : OpenErr) (e0 : Ext) : List (List BCall) → List Op → List String
  | _, [] => []
  | L, op :: ops =>
    let here :=
      if (L[op.target]?).isNone then "bad"
      else match op with
        | .derive _ _ => "-"
        | _ => match errAnswer w oe e0 L op with
          | some c => showEClass c
          | none => "ok"
    here :: showErrRun w oe e0 (lineage L [op]) ops

/-- one page of a `c10.comb` line: `cols:w:h:f.l.b.p.hd.ls.el` -/
def parseCombPage (s : String) : Option (ROPage × APage) :=
  match s.splitOn ":" with
  | [c, w, h, st] =>
    match c.toNat?, w.toNat?, h.toNat?, (st.splitOn ".").mapM (·.toNat?) with
    | some c, some w, some h, some [a, b, d, e, f, g, i] => some (⟨c, w, h⟩, ⟨⟨a, b, d, e, f, g, i⟩, w, h⟩)
    | _, _, _, _ => none
  | _ => none

def parseCombPages (s : String) : Option (List (ROPage × APage)) :=
  if s == "0" then some [] else (s.splitOn ";").mapM parseCombPage

def parseTable (s : String) : List (String × String) :=
  (s.splitOn ",").filterMap fun kv =>
    match kv.splitOn "=" with
    | [k, v] => some (k, v)
    | _ => none

def handle (op : String) (args : List String) : String :=
  match op, args with
  | "c10.psel", n :: cs =>
    match n.toNat?, cs.mapM parseCall with
    | some n, some calls =>
      both (withSel cs (resolvePages · n) natList)
        (showExcept natList (pagesCall .fragments (pdfWorld n) {} calls))
    | _, _ => "bad-op"
  | "c10.text", ts :: cs =>
    match parseTexts ts, cs.mapM parseCall with
    | some texts, some calls =>
      both (withSel cs (extractText (lookup texts) · texts.length) hexS)
        (showExcept hexS (textCall (lookup texts) (pdfWorld texts.length) {} calls))
    | _, _ => "bad-op"
  | "c10.frag", ps :: cs =>
    match parseFragPages ps, cs.mapM parseCall with
    | some pages, some calls =>
      both (withSel cs (extractFragments (lookup pages) · pages.length) showFrags)
        (showExcept showFrags (fragmentsCall (lookup pages) (pdfWorld pages.length) {} calls))
    | _, _ => "bad-op"
  | "c10.doc", n :: cs =>
    match n.toNat?, cs.mapM parseCall with
    | some n, some calls =>
      both (withSel cs (extractDocument · n) showDoc)
        (showExcept showDoc (documentCall (pdfWorld n) {} calls))
    | _, _ => "bad-op"
  | "c10.pipe", n :: doc :: cs =>
    match n.toNat?, parsePipeDoc doc, cs.mapM parseCall with
    | some n, some pages, some calls =>
      if pages.length != n then "bad-op"
      else
        let env := pipeEnv pages
        let e := chain calls
        both (showExcept hexS (textOfChain env (pdfWorld n) calls))
          (if e.err then "err" else showExcept hexS (textFull env e.opts n))
    | _, _, _ => "bad-op"
  | "c10.head", counts :: cs =>
    match parseCounts counts with
    | some cnt =>
      withSel cs (extractHeadings (fun k => (lookup cnt k).map List.range) · cnt.length) (showPairs ":")
    | none => "bad-op"
  | "c10.anl", counts :: cs =>
    match parseCounts counts with
    | some cnt =>
      withSel cs (extractAnalysis (fun k => (lookup cnt k).map fun c => List.replicate c k) · cnt.length)
        (showPairs "@")
    | none => "bad-op"
  | "c10.sel", cs =>
    match cs.mapM parseCall with
    | some calls =>
      let viaChain := (chain calls).opts.pages
      let ps := selOf calls
      let shown := fun (l : List Int) => if l.isEmpty then "-" else ".".intercalate (l.map toString)
      both (shown viaChain ++ ";" ++ bit (chain calls).err) (shown ps ++ ";" ++ bit (badRange calls))
    | none => "bad-op"
  | "c10.term", k :: n :: cs =>
    match parseTerm k, n.toNat?, cs.mapM parseCall with
    | some k, some n, some calls => showExcept natList (pagesCall k (pdfWorld n) {} calls)
    | _, _, _ => "bad-op"
  | "c10.lin", w :: ops =>
    match parseAnyWorld w, ops.mapM parseOp with
    | some (_, w, _, e0, life), some ops =>
      " ".intercalate ((staticRun w e0 [[]] ops).map (if life then showResLife else showRes))
    | _, _ => "bad-op"
  | "c10.end", w :: ops =>
    match parseAnyWorld w, ops.mapM parseOp with
    | some (s0, w, fmt, _, _), some ops =>
      let s := exec w s0 ops
      let t := exec w s (closeAll (List.range s.exts.length))
      s!"{fdHeld fmt s} {fdHeld fmt t}"
    | _, _ => "bad-op"
  | "c10.bld", w :: ops =>
    match parseWorld w, ops.mapM parseOp with
    | some (s0, w), some ops =>
      let (s, rs) := run w s0 ops
      " ".intercalate (rs.map fun (r, fd) => s!"{showRes r}/{fd}") ++ " | " ++
        " ".intercalate (s.exts.map showExt)
    | _, _ => "bad-op"
  | "c10.life", w :: ops =>
    match parseLife w, ops.mapM parseOp with
    | some (s0, w, fmt), some ops =>
      let (s, rs) := run w s0 ops
      -- `run` reports the open readers; the descriptors behind them are `fdHeld`
      let fd := fun (n : Nat) => if fmt = .html then 0 else n
      " ".intercalate (rs.map fun (r, n) => s!"{showResLife r}/{fd n}") ++ " | " ++
        " ".intercalate (s.exts.map showExt)
    | _, _ => "bad-op"
  | "c10.auto", w :: ops =>
    match parseAnyWorld w, ops.mapM parseOp with
    | some (_, w, _, e0, _), some ops =>
      let L := lineage [[]] ops
      -- closed form (file families, well-scoped histories): who holds a reader at the end is
      -- decided by the last operation called on each extractor
      let closed :=
        if !e0.hasFile then "lent"
        else if !wellScoped 1 ops then "unscoped"
        else String.join ((List.range L.length).map fun i =>
          match L[i]? with
          | some cs => bit (holdsAtEnd w (chainFrom e0 cs) (ownOps i ops))
          | none => "?")
      " ".intercalate ((lifeTrace w e0 [[]] [lsOf e0] ops).map fun S => String.join (S.map showLS))
        ++ " | " ++ String.join ((lifeRun w e0 [[]] [lsOf e0] ops).map showLS) ++ " " ++ closed
    | _, _ => "bad-op"
  | "c10.ecls", w :: ops =>
    match parseAnyWorld w, parseLifeFacts w, ops.mapM parseOp with
    | some (_, wd, _, e0, _), some (ff, fmt), some ops =>
      -- both descriptions of "the file opens" must agree
      if (openErrOf ff fmt).isNone != (openOkOf ff fmt) then "model-paths-disagree:open"
      else " ".intercalate (showErrRun wd ((openErrOf ff fmt).getD .parse) e0 [[]] ops)
    | _, _, _ => "bad-op"
  | "c10.rerr", n :: cs =>
    match n.toNat?, cs.mapM parseCall with
    | some n, some calls =>
      let sh := fun (o : Option EClass) => match o with | some c => showEClass c | none => "ok"
      both (sh (termErr (pdfWorld n) .parse .fragments (chain calls) (firstInverted calls)))
        (sh (termErr (pdfWorld n) .parse .fragments (chain calls) (chainErr none calls)))
    | _, _ => "bad-op"
  | "c10.mem", w :: ops =>
    match w.splitOn ",", ops.mapM parseOp with
    | [b, n], some ops =>
      match (if b == "ok" then some htmlBase else if b == "bad" then some htmlBaseErr else none),
          (if n == "x" then some none else n.toNat?.map some) with
      | some e0, some pc =>
        let wd : World := ⟨false, pc⟩
        let (X, rs) := mrun wd [e0] ops
        both (" ".intercalate (rs.map showResLife)) (" ".intercalate ((mStaticRun wd e0 [[]] [e0.opened] ops).map showResLife))
          ++ " | " ++ " ".intercalate (X.map showExt)
      | _, _ => "bad-op"
    | _, _ => "bad-op"
  | "c10.comb", pages :: cs =>
    match parseCombPages pages with
    | some ps =>
      let ro := fun (sel : List Int) => extractReadingOrder (fun k => (lookup ps k).map (·.1)) sel ps.length
      let an := fun (sel : List Int) => extractAnalysisSummary (fun k => (lookup ps k).map (·.2)) sel ps.length
      let showStats := fun (t : AStats) => s!"{t.frag}.{t.line}.{t.block}.{t.para}.{t.head}.{t.list}.{t.elem}"
      match cs.mapM parseCall with
      | none => "bad-op"
      | some calls =>
        let e := chain calls
        if e.err then "err"
        else match ro e.opts.pages, an e.opts.pages with
          | .ok r, .ok a => s!"ro {r.cols} {r.w} {r.h} | an {showStats a.stats} {a.colCount} {a.w} {a.h}"
          | _, _ => "err"
    | none => "bad-op"
  | "c10.disp", f :: k :: tbl :: cs =>
    match parseFmt f, parseTerm k, cs.mapM parseCall with
    | some f, some k, some calls =>
      match route k (chainFrom { format := f } calls) with
      | .pdfPipeline => "pdf"
      | .unsupported => "unsupported"
      | .reader c =>
        match (parseTable tbl).lookup c.key with
        | some v => c.key ++ "=" ++ v
        | none => c.key ++ "=?"
    | _, _, _ => "bad-op"
  | _, _ => "bad-op"

end Tabula.C10H
