import TabulaModel.Util
import TabulaModel.Model.PageSel
import TabulaModel.Model.Builder
/-
Line protocol of C10.

  calls (one token each): P<i.j.k> | P | R<s>.<e> | H | F | B | J | C | L
  c10.psel <n> <call>*                 -> ok <i,j,k|-> | err
  c10.text <hex,hex,…|0> <call>*       -> ok <hex> | err      (per-page texts; 0 = no pages)
  c10.frag <p;p;…|0> <call>*           -> ok <hex.hex…|~> | err  (p = hex.hex… | ~ for a page without fragments)
  c10.doc  <n> <call>*                 -> ok <number>@<source>,… | err
  c10.bld  <f|r>,<openOk 0|1>,<n|x> <op>*   ops: d<i>:<call> t<i> g<i> u<i> k<i> c<i> m<i> x<i>
      -> <res>/<fd> … | <pages>;<HFCLJ>;<err owns opened> …
-/
namespace Tabula.C10H
open Tabula Tabula.PageSel Tabula.Builder

def parseInts (s : String) : Option (List Int) :=
  if s == "" then some [] else (s.splitOn ".").mapM (·.toInt?)

def parseCall (s : String) : Option BCall :=
  match s.toList with
  | 'P' :: rest => (parseInts (String.ofList rest)).map BCall.pages
  | 'R' :: rest =>
    match parseInts (String.ofList rest) with
    | some [a, b] => some (.pageRange a b)
    | _ => none
  | ['H'] => some .excludeHeaders
  | ['F'] => some .excludeFooters
  | ['B'] => some .excludeHeadersAndFooters
  | ['J'] => some .joinParagraphs
  | ['C'] => some .byColumn
  | ['L'] => some .preserveLayout
  | _ => none

/-- the chain `Open(f).c₁.c₂…` as one extractor value -/
def chain (cs : List BCall) : Ext := cs.foldl Ext.derive {}

def natList (l : List Nat) : String :=
  if l.isEmpty then "-" else ",".intercalate (l.map toString)

def hexS (s : Str) : String := hex (s.map UInt8.ofNat)
def unhexS (s : String) : Option Str := (unhex s).map fun b => b.map (·.toNat)

def lookup {α : Type} (l : List α) (k : Nat) : Except E α :=
  match l[k]? with
  | some a => .ok a
  | none => .error .page

/-- selection of a chained extractor: builder error first, then resolvePages -/
def withSel {α : Type} (cs : List String) (f : List Int → Except E α) (show_ : α → String) : String :=
  match cs.mapM parseCall with
  | none => "bad-op"
  | some calls =>
    let e := chain calls
    if e.err then "err"
    else match f e.opts.pages with
      | .ok a => "ok " ++ show_ a
      | .error _ => "err"

def parseTexts (s : String) : Option (List Str) :=
  if s == "0" then some [] else (s.splitOn ",").mapM unhexS

def parseFragPage (s : String) : Option (List Str) :=
  if s == "~" then some [] else (s.splitOn ".").mapM unhexS

def parseFragPages (s : String) : Option (List (List Str)) :=
  if s == "0" then some [] else (s.splitOn ";").mapM parseFragPage

def showFrags (l : List Str) : String :=
  if l.isEmpty then "~" else ".".intercalate (l.map hexS)

def showDoc (d : List MPage) : String :=
  ",".intercalate (d.map fun p => s!"{p.number}@{p.source}")

def parseWorld (s : String) : Option (Store × World) :=
  match s.splitOn "," with
  | [b, o, n] => do
    let base ← if b == "f" then some openBase else if b == "r" then some readerBase else none
    let ok ← if o == "1" then some true else if o == "0" then some false else none
    let pc ← if n == "x" then some none else n.toNat?.map some
    pure (base, ⟨ok, pc⟩)
  | _ => none

def parseOp (s : String) : Option Op :=
  match s.toList with
  | 'd' :: rest =>
    match (String.ofList rest).splitOn ":" with
    | [i, c] => do pure (.derive (← i.toNat?) (← parseCall c))
    | _ => none
  | 't' :: rest => (String.ofList rest).toNat?.map (Op.term · .text)
  | 'g' :: rest => (String.ofList rest).toNat?.map (Op.term · .fragments)
  | 'u' :: rest => (String.ofList rest).toNat?.map (Op.term · .document)
  | 'k' :: rest => (String.ofList rest).toNat?.map (Op.term · .chunks)
  | 'c' :: rest => (String.ofList rest).toNat?.map (Op.nonTerm · .pageCount)
  | 'm' :: rest => (String.ofList rest).toNat?.map (Op.nonTerm · .isMultiColumn)
  | 'x' :: rest => (String.ofList rest).toNat?.map Op.close
  | _ => none

def showRes : Res → String
  | .none => "-"
  | .closed => "closed"
  | .count n => s!"n{n}"
  | .flag => "flag"
  | .pages l => "p" ++ natList l
  | .err => "err"
  | .bad => "bad"

def bit (b : Bool) : String := if b then "1" else "0"

def showExt (e : Ext) : String :=
  let ps := if e.opts.pages.isEmpty then "-" else ".".intercalate (e.opts.pages.map toString)
  let o := e.opts
  s!"{ps};{bit o.excludeHeaders}{bit o.excludeFooters}{bit o.byColumn}{bit o.preserveLayout}{bit o.joinParagraphs};{bit e.err}{bit e.owns}{bit e.opened}"

def handle (op : String) (args : List String) : String :=
  match op, args with
  | "c10.psel", n :: cs =>
    match n.toNat? with
    | some n => withSel cs (resolvePages · n) natList
    | none => "bad-op"
  | "c10.text", ts :: cs =>
    match parseTexts ts with
    | some texts => withSel cs (extractText (lookup texts) · texts.length) hexS
    | none => "bad-op"
  | "c10.frag", ps :: cs =>
    match parseFragPages ps with
    | some pages => withSel cs (extractFragments (lookup pages) · pages.length) showFrags
    | none => "bad-op"
  | "c10.doc", n :: cs =>
    match n.toNat? with
    | some n => withSel cs (extractDocument · n) showDoc
    | none => "bad-op"
  | "c10.bld", w :: ops =>
    match parseWorld w, ops.mapM parseOp with
    | some (s0, w), some ops =>
      let (s, rs) := run w s0 ops
      " ".intercalate (rs.map fun (r, fd) => s!"{showRes r}/{fd}") ++ " | " ++
        " ".intercalate (s.exts.map showExt)
    | _, _ => "bad-op"
  | _, _ => "bad-op"

end Tabula.C10H
