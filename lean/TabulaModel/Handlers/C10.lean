import TabulaModel.Util
namespace Tabula.C10H

def handle (_op : String) (_args : List String) : String := "bad-op"

end Tabula.C10H
