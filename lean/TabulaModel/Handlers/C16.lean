import TabulaModel.Util
namespace Tabula.C16H

def handle (_op : String) (_args : List String) : String := "bad-op"

end Tabula.C16H
