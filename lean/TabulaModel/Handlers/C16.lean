import TabulaModel.Util
import TabulaModel.Model.Docx
import TabulaModel.Model.Odt
import TabulaModel.Model.DocxRender
import TabulaModel.Model.OdtRender
import TabulaModel.Model.StyleCache
import TabulaModel.Model.VMergeSpec
/-
Line protocol for C16.

  c16.docx <document.xml tree> <styles.xml tree | ->
  c16.odt  <content.xml tree>  <styles.xml tree | ->
  c16.odtcols <table:table tree>      reply: number of column widths (`len(ParsedTable.ColWidths)`)
  c16.docx.views <document.xml tree> <styles | -> <numbering | -> <header trees> <footer trees>
                 <exH 0|1> <exF 0|1> <heading offset> <max heading level> <call sequence>
      the views of ONE reader asked for in the order of the call sequence
      (T TextWithOptions, M MarkdownWithOptions, R MarkdownWithRAGOptions, D Document, L ModelTables,
      P the parsed element list); header / footer trees: '-' or trees separated by ';'
      reply: one answer per call, separated by spaces: T:<hex> M:<hex> R:<hex> D:<doc> L:<tables> P:<n>|<elems>
        doc   := elements separated by ';': p:<hex text> | h<level>:<hex text>
                 | l<0|1>:<item>,<item>…  (item = <level>.<hex bullet>.<hex text>) | t:<grid>
        grid  := rows separated by '/', cells by ',', cell = <hex text>.<rowSpan>.<colSpan>
  c16.docx.resolve <styles | -> <hex id>,<hex id>,…      one style resolver, `Resolve` called for the ids in order
  c16.odt.resolve <content.xml tree> <styles | -> <hex name>,…     reply: h<level> | - per call, separated by ','
  c16.docx.cached <document.xml tree> <styles | ->   the element list computed WITH the resolver's cache (reply as c16.docx)
  c16.docx.api <document.xml tree> <styles | -> <numbering | -> <header trees> <footer trees> <exH> <exF>
  c16.odt.api <content.xml tree> <styles | -> <exH> <exF>
      tabula.Open(f)[.ExcludeHeaders()][.ExcludeFooters()] .Text() / .ToMarkdown() / .Document()
      reply: T:<hex> M:<hex> D:<doc>
  c16.docx.vmerge <w:tbl tree>    the row spans of the table by the state-free specification of the vertical-merge
                 pass (`bumpAll rows (targets rows)`); reply: rows separated by '/', row spans by ','
  c16.odt.views <content.xml tree> <styles | -> <exH> <exF> <heading offset> <max heading level> <call sequence>
      the same for ONE odt reader (header / footer texts come from the master pages of styles.xml)

tree := '(' hex(tag) { '@' hex(attr) '=' hex(value) } { tree | '\'' hex(text) } ')'
(hex of the empty string is "-").

A DOCX op whose document.xml `docx.Open` refuses (a decoded paragraph nests inline containers
deeper than `maxInlineDepth`) is answered `err` (c16.docx, c16.docx.views, c16.docx.cached,
c16.docx.api); so is an ODT op whose content.xml `odt.Open` refuses (a paragraph of a body
element nests `text:span` / `text:a` deeper than `maxInlineDepth`: c16.odt, c16.odt.views,
c16.odt.api).

reply := <n> <elem>;<elem>;…      (n = number of elements)
  paragraph  p:<h<level>|->:<list|->:<hex text>     docx list = <hex numId>.<level>, odt list = L<level>
  table      t:<row>/<row>…   row = <cell>,<cell>…  cell = <hex text>.<colSpan>.<rowSpan>.<0|1>
             (flag: docx vertical-merge continuation, odt covered cell)
-/
namespace Tabula.C16H
open Tabula Tabula.Xml

def isHexChar (c : Char) : Bool := (hexDigitVal c).isSome || c == '-'

/-- read a hex atom (possibly "-") from the front of the input -/
def takeHex (cs : List Char) : Option (Str × List Char) :=
  let h := cs.takeWhile isHexChar
  let rest := cs.dropWhile isHexChar
  match unhex (String.ofList h) with
  | some bs => some (bs.map (·.toNat), rest)
  | none => none

/-- attributes: { '@' hex '=' hex } -/
partial def parseAttrs (cs : List Char) (acc : List (Str × Str)) : Option (List (Str × Str) × List Char) :=
  match cs with
  | '@' :: rest =>
    match takeHex rest with
    | some (k, '=' :: rest2) =>
      match takeHex rest2 with
      | some (v, rest3) => parseAttrs rest3 ((k, v) :: acc)
      | none => none
    | _ => none
  | _ => some (acc.reverse, cs)

mutual
partial def parseNode (cs : List Char) : Option (Node × List Char) :=
  match cs with
  | '(' :: rest =>
    match takeHex rest with
    | some (tag, rest1) =>
      match parseAttrs rest1 [] with
      | some (attrs, rest2) =>
        match parseKids rest2 [] with
        | some (kids, rest3) => some (.elem tag attrs kids, rest3)
        | none => none
      | none => none
    | none => none
  | '\'' :: rest =>
    match takeHex rest with
    | some (s, rest1) => some (.text s, rest1)
    | none => none
  | _ => none
partial def parseKids (cs : List Char) (acc : List Node) : Option (List Node × List Char) :=
  match cs with
  | ')' :: rest => some (acc.reverse, rest)
  | [] => none
  | _ =>
    match parseNode cs with
    | some (n, rest) => parseKids rest (n :: acc)
    | none => none
end

def parseTree (s : String) : Option Node :=
  match parseNode s.toList with
  | some (n, []) => some n
  | _ => none

/-- "-" = part absent -/
def parseOptTree (s : String) : Option (Option Node) :=
  if s == "-" then some none else (parseTree s).map some

def hexS (s : Str) : String := hex (s.map UInt8.ofNat)

def b01 (b : Bool) : String := if b then "1" else "0"

def hd (h : Option Nat) : String := match h with | some l => s!"h{l}" | none => "-"

def dumpDocxCell (c : Docx.Cell) : String := s!"{hexS c.text}.{c.colSpan}.{c.rowSpan}.{b01 c.cont}"
def dumpOdtCell (c : Odt.Cell) : String := s!"{hexS c.text}.{c.colSpan}.{c.rowSpan}.{b01 c.covered}"

def dumpDocx (e : Docx.Elem) : String :=
  match e with
  | .para p =>
    let l := match p.list with | some (id, lv) => s!"{hexS id}.{lv}" | none => "-"
    s!"p:{hd p.heading}:{l}:{hexS p.text}"
  | .table rows => "t:" ++ "/".intercalate (rows.map fun r => ",".intercalate (r.map dumpDocxCell))

def dumpOdt (e : Odt.Elem) : String :=
  match e with
  | .para p =>
    let l := match p.list with | some lv => s!"L{lv}" | none => "-"
    s!"p:{hd p.heading}:{l}:{hexS p.text}"
  | .table rows => "t:" ++ "/".intercalate (rows.map fun r => ",".intercalate (r.map dumpOdtCell))

/-- '-' or trees separated by ';' -/
def parseTrees (s : String) : Option (List Node) :=
  if s == "-" then some [] else (s.splitOn ";").mapM parseTree

def dumpGrid (g : List (List Render.MCell)) : String :=
  "/".intercalate (g.map fun r => ",".intercalate (r.map fun c => s!"{hexS c.text}.{c.rowSpan}.{c.colSpan}"))

def dumpDocElem (e : Docx.DocElem) : String :=
  match e with
  | .para t => s!"p:{hexS t}"
  | .heading l t => s!"h{l}:{hexS t}"
  | .list o items => s!"l{b01 o}:" ++ ",".intercalate (items.map fun it => s!"{it.level}.{hexS it.bullet}.{hexS it.text}")
  | .table g => "t:" ++ dumpGrid g

def orDash (s : String) : String := if s.isEmpty then "-" else s

/-- the answer of one call of the call sequence -/
def docxView (rd : Docx.Reader) (opts : Docx.ExtractOptions) (o : Docx.MdOptions) (v : Char) : String :=
  match v with
  | 'T' => "T:" ++ hexS (Docx.textWithOptions rd opts)
  | 'M' => "M:" ++ hexS (Docx.markdownWithOptions rd opts)
  | 'R' => "R:" ++ hexS (Docx.markdownWithRAGOptions rd opts o)
  | 'D' => "D:" ++ orDash (";".intercalate ((Docx.document rd).map dumpDocElem))
  | 'L' => "L:" ++ orDash (";".intercalate ((Docx.modelTables rd).map dumpGrid))
  | 'P' => let els := rd.elements.map (·.1); s!"P:{els.length}|" ++ ";".intercalate (els.map dumpDocx)
  | _ => "?"

def dumpOdtDocElem (e : Odt.DocElem) : String :=
  match e with
  | .para t => s!"p:{hexS t}"
  | .heading l t => s!"h{l}:{hexS t}"
  | .list o items => s!"l{b01 o}:" ++ ",".intercalate (items.map fun it => s!"{it.level}.{hexS it.bullet}.{hexS it.text}")
  | .table g => "t:" ++ dumpGrid g

def odtView (rd : Odt.Reader) (opts : Odt.ExtractOptions) (o : Odt.MdOptions) (v : Char) : String :=
  match v with
  | 'T' => "T:" ++ hexS (Odt.textWithOptions rd opts)
  | 'M' => "M:" ++ hexS (Odt.markdownWithOptions rd opts)
  | 'R' => "R:" ++ hexS (Odt.markdownWithRAGOptions rd opts o)
  | 'D' => "D:" ++ orDash (";".intercalate ((Odt.document rd).map dumpOdtDocElem))
  | 'L' => "L:" ++ orDash (";".intercalate ((Odt.modelTables rd).map dumpGrid))
  | 'P' => let els := rd.elements.map (·.elem); s!"P:{els.length}|" ++ ";".intercalate (els.map dumpOdt)
  | _ => "?"

/-- comma-separated hex strings ("-" = the empty string) -/
def parseHexList (s : String) : Option (List Str) :=
  (s.splitOn ",").mapM fun h => (unhex h).map fun bs => bs.map (·.toNat)

def handle (op : String) (args : List String) : String :=
  match op, args with
  | "c16.docx", [doc, styles] =>
    match parseTree doc, parseOptTree styles with
    | some d, some st =>
      match Docx.openElements d st with
      | some els => s!"{els.length} {";".intercalate (els.map dumpDocx)}"
      | none => "err"
    | _, _ => "bad-op"
  | "c16.odt", [content, styles] =>
    match parseTree content, parseOptTree styles with
    | some d, some st =>
      match Odt.openElements d st with
      | some els => s!"{els.length} {";".intercalate (els.map dumpOdt)}"
      | none => "err"
    | _, _ => "bad-op"
  | "c16.docx.views", [doc, styles, numbering, hdrs, ftrs, exH, exF, off, mx, seq] =>
    match parseTree doc, parseOptTree styles, parseOptTree numbering, parseTrees hdrs, parseTrees ftrs, off.toInt?, mx.toInt? with
    | some d, some st, some nm, some hs, some fs, some off, some mx =>
      match Docx.openReader? d st nm hs fs with
      | none => "err"
      | some rd =>
        let opts : Docx.ExtractOptions := { excludeHeaders := exH == "1", excludeFooters := exF == "1" }
        let o : Docx.MdOptions := { offset := off, maxLevel := mx }
        " ".intercalate (seq.toList.map (docxView rd opts o))
    | _, _, _, _, _, _, _ => "bad-op"
  | "c16.odt.views", [content, styles, exH, exF, off, mx, seq] =>
    match parseTree content, parseOptTree styles, off.toInt?, mx.toInt? with
    | some d, some st, some off, some mx =>
      match Odt.openReader? d st with
      | none => "err"
      | some rd =>
        let opts : Odt.ExtractOptions := { excludeHeaders := exH == "1", excludeFooters := exF == "1" }
        let o : Odt.MdOptions := { offset := off, maxLevel := mx }
        " ".intercalate (seq.toList.map (odtView rd opts o))
    | _, _, _, _ => "bad-op"
  | "c16.docx.resolve", [styles, ids] =>
    match parseOptTree styles, parseHexList ids with
    | some st, some ids => ",".intercalate ((Docx.resolveSeq (Docx.stylesOf st) [] ids).1.map hd)
    | _, _ => "bad-op"
  | "c16.odt.resolve", [content, styles, names] =>
    match parseTree content, parseOptTree styles, parseHexList names with
    | some d, some st, some ns => ",".intercalate ((Odt.resolveSeq (Odt.allStyles d st) [] ns).1.map hd)
    | _, _, _ => "bad-op"
  | "c16.docx.cached", [doc, styles] =>
    match parseTree doc, parseOptTree styles with
    | some d, some st =>
      if Docx.documentDecodes d then
        let els := Docx.elementsC d st
        s!"{els.length} {";".intercalate (els.map dumpDocx)}"
      else "err"
    | _, _ => "bad-op"
  | "c16.docx.api", [doc, styles, numbering, hdrs, ftrs, exH, exF] =>
    match parseTree doc, parseOptTree styles, parseOptTree numbering, parseTrees hdrs, parseTrees ftrs with
    | some d, some st, some nm, some hs, some fs =>
      match Docx.openReader? d st nm hs fs with
      | none => "err"
      | some rd =>
        let a : Docx.ApiOptions := { excludeHeaders := exH == "1", excludeFooters := exF == "1" }
        s!"T:{hexS (Docx.apiText rd a)} M:{hexS (Docx.apiMarkdown rd a)} D:{orDash (";".intercalate ((Docx.apiDocument rd).map dumpDocElem))}"
    | _, _, _, _, _ => "bad-op"
  | "c16.odt.api", [content, styles, exH, exF] =>
    match parseTree content, parseOptTree styles with
    | some d, some st =>
      match Odt.openReader? d st with
      | none => "err"
      | some rd =>
        let a : Odt.ApiOptions := { excludeHeaders := exH == "1", excludeFooters := exF == "1" }
        s!"T:{hexS (Odt.apiText rd a)} M:{hexS (Odt.apiMarkdown rd a)} D:{orDash (";".intercalate ((Odt.apiDocument rd).map dumpOdtDocElem))}"
    | _, _ => "bad-op"
  | "c16.docx.vmerge", [tbl] =>
    match parseTree tbl with
    | some t =>
      let rows := Docx.parseRows t
      "/".intercalate ((Docx.bumpAll rows (Docx.targets rows)).map fun r => ",".intercalate (r.map fun c => s!"{c.rowSpan}"))
    | none => "bad-op"
  | "c16.odtcols", [tbl] =>
    match parseTree tbl with
    | some t => s!"{Odt.columnCount t}"
    | none => "bad-op"
  | _, _ => "bad-op"

end Tabula.C16H
