import TabulaModel.Util
import TabulaModel.Model.Docx
import TabulaModel.Model.Odt
/-
Line protocol for C16.

  c16.docx <document.xml tree> <styles.xml tree | ->
  c16.odt  <content.xml tree>  <styles.xml tree | ->
  c16.odtcols <table:table tree>      reply: number of column widths (`len(ParsedTable.ColWidths)`)

tree := '(' hex(tag) { '@' hex(attr) '=' hex(value) } { tree | '\'' hex(text) } ')'
(hex of the empty string is "-").

reply := <n> <elem>;<elem>;…      (n = number of elements)
  paragraph  p:<h<level>|->:<list|->:<hex text>     docx list = <hex numId>.<level>, odt list = L<level>
  table      t:<row>/<row>…   row = <cell>,<cell>…  cell = <hex text>.<colSpan>.<rowSpan>.<0|1>
             (flag: docx vertical-merge continuation, odt covered cell)
-/
namespace Tabula.C16H
open Tabula Tabula.Xml

def isHexChar (c : Char) : Bool := (hexDigitVal c).isSome || c == '-'

/-- read a hex atom (possibly "-") from the front of the input -/
def takeHex (cs : List Char) : Option (Str × List Char) :=
  let h := cs.takeWhile isHexChar
  let rest := cs.dropWhile isHexChar
  match unhex (String.ofList h) with
  | some bs => some (bs.map (·.toNat), rest)
  | none => none

/-- attributes: { '@' hex '=' hex } -/
partial def parseAttrs (cs : List Char) (acc : List (Str × Str)) : Option (List (Str × Str) × List Char) :=
  match cs with
  | '@' :: rest =>
    match takeHex rest with
    | some (k, '=' :: rest2) =>
      match takeHex rest2 with
      | some (v, rest3) => parseAttrs rest3 ((k, v) :: acc)
      | none => none
    | _ => none
  | _ => some (acc.reverse, cs)

mutual
partial def parseNode (cs : List Char) : Option (Node × List Char) :=
  match cs with
  | '(' :: rest =>
    match takeHex rest with
    | some (tag, rest1) =>
      match parseAttrs rest1 [] with
      | some (attrs, rest2) =>
        match parseKids rest2 [] with
        | some (kids, rest3) => some (.elem tag attrs kids, rest3)
        | none => none
      | none => none
    | none => none
  | '\'' :: rest =>
    match takeHex rest with
    | some (s, rest1) => some (.text s, rest1)
    | none => none
  | _ => none
partial def parseKids (cs : List Char) (acc : List Node) : Option (List Node × List Char) :=
  match cs with
  | ')' :: rest => some (acc.reverse, rest)
  | [] => none
  | _ =>
    match parseNode cs with
    | some (n, rest) => parseKids rest (n :: acc)
    | none => none
end

def parseTree (s : String) : Option Node :=
  match parseNode s.toList with
  | some (n, []) => some n
  | _ => none

/-- "-" = part absent -/
def parseOptTree (s : String) : Option (Option Node) :=
  if s == "-" then some none else (parseTree s).map some

def hexS (s : Str) : String := hex (s.map UInt8.ofNat)

def b01 (b : Bool) : String := if b then "1" else "0"

def hd (h : Option Nat) : String := match h with | some l => s!"h{l}" | none => "-"

def dumpDocxCell (c : Docx.Cell) : String := s!"{hexS c.text}.{c.colSpan}.{c.rowSpan}.{b01 c.cont}"
def dumpOdtCell (c : Odt.Cell) : String := s!"{hexS c.text}.{c.colSpan}.{c.rowSpan}.{b01 c.covered}"

def dumpDocx (e : Docx.Elem) : String :=
  match e with
  | .para p =>
    let l := match p.list with | some (id, lv) => s!"{hexS id}.{lv}" | none => "-"
    s!"p:{hd p.heading}:{l}:{hexS p.text}"
  | .table rows => "t:" ++ "/".intercalate (rows.map fun r => ",".intercalate (r.map dumpDocxCell))

def dumpOdt (e : Odt.Elem) : String :=
  match e with
  | .para p =>
    let l := match p.list with | some lv => s!"L{lv}" | none => "-"
    s!"p:{hd p.heading}:{l}:{hexS p.text}"
  | .table rows => "t:" ++ "/".intercalate (rows.map fun r => ",".intercalate (r.map dumpOdtCell))

def handle (op : String) (args : List String) : String :=
  match op, args with
  | "c16.docx", [doc, styles] =>
    match parseTree doc, parseOptTree styles with
    | some d, some st =>
      let els := Docx.elements d st
      s!"{els.length} {";".intercalate (els.map dumpDocx)}"
    | _, _ => "bad-op"
  | "c16.odt", [content, styles] =>
    match parseTree content, parseOptTree styles with
    | some d, some st =>
      let els := Odt.elements d st
      s!"{els.length} {";".intercalate (els.map dumpOdt)}"
    | _, _ => "bad-op"
  | "c16.odtcols", [tbl] =>
    match parseTree tbl with
    | some t => s!"{Odt.columnCount t}"
    | none => "bad-op"
  | _, _ => "bad-op"

end Tabula.C16H
