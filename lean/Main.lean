import TabulaModel.Handlers.C17
open Tabula

def dispatch (line : String) : String :=
  match splitArgs line with
  | [] => "bad-op"
  | op :: args =>
    if op.startsWith "c17." then C17H.handle op args
    else "bad-op"

partial def loop (h : IO.FS.Stream) (out : IO.FS.Stream) : IO Unit := do
  let line ← h.getLine
  if line.isEmpty then return ()
  out.putStrLn (dispatch (line.trimAscii.toString))
  loop h out

def main : IO Unit := do
  let out ← IO.getStdout
  loop (← IO.getStdin) out
  out.flush
