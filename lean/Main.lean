import TabulaModel.Handlers.C01
import TabulaModel.Handlers.C02
import TabulaModel.Handlers.C03
import TabulaModel.Handlers.C04
import TabulaModel.Handlers.C05
import TabulaModel.Handlers.C06
import TabulaModel.Handlers.C07
import TabulaModel.Handlers.C08
import TabulaModel.Handlers.C09
import TabulaModel.Handlers.C10
import TabulaModel.Handlers.C11
import TabulaModel.Handlers.C12
import TabulaModel.Handlers.C13
import TabulaModel.Handlers.C14
import TabulaModel.Handlers.C15
import TabulaModel.Handlers.C16
import TabulaModel.Handlers.C17
import TabulaModel.Handlers.C18
import TabulaModel.Handlers.C19
import TabulaModel.Handlers.C20
open Tabula

def dispatch (line : String) : String :=
  match splitArgs line with
  | [] => "bad-op"
  | op :: args =>
    if op.startsWith "c01." then C01H.handle op args
    else if op.startsWith "c02." then C02H.handle op args
    else if op.startsWith "c03." then C03H.handle op args
    else if op.startsWith "c04." then C04H.handle op args
    else if op.startsWith "c05." then C05H.handle op args
    else if op.startsWith "c06." then C06H.handle op args
    else if op.startsWith "c07." then C07H.handle op args
    else if op.startsWith "c08." then C08H.handle op args
    else if op.startsWith "c09." then C09H.handle op args
    else if op.startsWith "c10." then C10H.handle op args
    else if op.startsWith "c11." then C11H.handle op args
    else if op.startsWith "c12." then C12H.handle op args
    else if op.startsWith "c13." then C13H.handle op args
    else if op.startsWith "c14." then C14H.handle op args
    else if op.startsWith "c15." then C15H.handle op args
    else if op.startsWith "c16." then C16H.handle op args
    else if op.startsWith "c17." then C17H.handle op args
    else if op.startsWith "c18." then C18H.handle op args
    else if op.startsWith "c19." then C19H.handle op args
    else if op.startsWith "c20." then C20H.handle op args
    else "bad-op"

partial def loop (h : IO.FS.Stream) (out : IO.FS.Stream) : IO Unit := do
  let line ← h.getLine
  if line.isEmpty then return ()
  out.putStrLn (dispatch (line.trimAscii.toString))
  loop h out

def main : IO Unit := do
  let out ← IO.getStdout
  loop (← IO.getStdin) out
  out.flush
