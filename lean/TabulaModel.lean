import TabulaModel.Util
import TabulaModel.Props.C17
