import TabulaModel.Util
import TabulaModel.Props.C01
import TabulaModel.Props.C04
import TabulaModel.Props.C08
import TabulaModel.Props.C15
import TabulaModel.Props.C17
import TabulaModel.Props.C18
import TabulaModel.Props.C20
