#!/bin/sh
# Offline build of the whole framework from files on disk (MANIFEST.setup_cmd).
set -e
cd "$(dirname "$0")"
REPO="${VERIF_REPO:-/repo}"
sed -i "s|^replace github.com/tsawler/tabula => .*|replace github.com/tsawler/tabula => $REPO|" harness/go.mod
export GOFLAGS=-mod=mod GOPROXY=off GOSUMDB=off GOTOOLCHAIN=local
mkdir -p .work/bin evidence
cp "$REPO/go.sum" harness/go.sum
(cd harness && go build -tags verif -o ../.work/bin/harness .)
(cd extract && go build -o ../.work/bin/extract .)
rm -rf .work/gen.tmp && mkdir -p .work/gen.tmp
./.work/bin/harness htmlvocab > .work/htmlvocab.json
./.work/bin/harness encodings > .work/encodings.json
./.work/bin/harness filters > .work/filters.json
./.work/bin/extract -repo "$REPO" -out .work/gen.tmp -htmlvocab .work/htmlvocab.json -encodings .work/encodings.json -filters .work/filters.json
mkdir -p lean/TabulaModel/Gen
for f in .work/gen.tmp/*.lean; do
  cmp -s "$f" "lean/TabulaModel/Gen/$(basename "$f")" || cp "$f" "lean/TabulaModel/Gen/$(basename "$f")"
done
cp .work/gen.tmp/facts.json .work/facts.json
cp .work/gen.tmp/gen_errors.json .work/gen_errors.json
{ echo 'import TabulaModel.Util'; for f in lean/TabulaModel/Props/C*.lean; do echo "import TabulaModel.Props.$(basename "$f" .lean)"; done; } > lean/TabulaModel.lean.new
cmp -s lean/TabulaModel.lean.new lean/TabulaModel.lean || cp lean/TabulaModel.lean.new lean/TabulaModel.lean
rm -f lean/TabulaModel.lean.new
(cd lean && lake build TabulaModel driver)
echo setup-ok
