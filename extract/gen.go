package main

// genAll runs the remaining extractions (added per property as the models grow).
func genAll() {
}
