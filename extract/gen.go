package main

import (
	"encoding/json"
	"fmt"
	"go/ast"
	"go/parser"
	"go/token"
	"os"
	"path/filepath"
	"sort"
	"strconv"
	"strings"
)

// genAll runs the remaining extractions (added per property as the models grow).
func genAll() {
	guarded("facts:package-state", factPackageState)
	guarded("facts:terminal-ops", factTerminalOpsClose)
	guarded("HtmlVocab.lean", genHtmlVocab)
	guarded("DetectTable.lean", genDetectTable)
	guarded("FilterTable.lean", genFilterTable)
	guarded("GlyphNames.lean", genGlyphNames)
}

// leanStrBytes renders a Go string as a Lean list of its bytes (the models use List Nat).
func leanStrBytes(s string) string {
	var b strings.Builder
	b.WriteString("[")
	for i := 0; i < len(s); i++ {
		if i > 0 {
			b.WriteString(", ")
		}
		fmt.Fprintf(&b, "%d", s[i])
	}
	b.WriteString("]")
	return b.String()
}

func leanStrBytesList(name string, xs []string) string {
	var b strings.Builder
	fmt.Fprintf(&b, "def %s : List (List Nat) := [", name)
	for i, x := range xs {
		if i > 0 {
			b.WriteString(",")
		}
		fmt.Fprintf(&b, "\n  %s /- %s -/", leanStrBytes(x), strings.ReplaceAll(x, "-/", "- /"))
	}
	b.WriteString("]\n")
	return b.String()
}

// constString evaluates a string constant expression built from literals and +.
func constString(e ast.Expr) (string, bool) {
	switch x := e.(type) {
	case *ast.BasicLit:
		if x.Kind == token.STRING {
			s, err := strconv.Unquote(x.Value)
			return s, err == nil
		}
	case *ast.BinaryExpr:
		if x.Op == token.ADD {
			a, ok1 := constString(x.X)
			b, ok2 := constString(x.Y)
			return a + b, ok1 && ok2
		}
	case *ast.ParenExpr:
		return constString(x.X)
	}
	return "", false
}

// alternatives extracts A|B|C from a pattern of the shape `(?i)(^|[^a-z])(A|B|C)([^a-z]|$)`.
func alternatives(pat string) ([]string, bool) {
	const pre, post = "(?i)(^|[^a-z])(", ")([^a-z]|$)"
	if !strings.HasPrefix(pat, pre) || !strings.HasSuffix(pat, post) {
		return nil, false
	}
	return strings.Split(pat[len(pre):len(pat)-len(post)], "|"), true
}

// genHtmlVocab: the class/id vocabularies of htmldoc/navigation.go (regexp alternatives).
func genHtmlVocab() {
	f := parseFile("htmldoc/navigation.go")
	found := map[string][]string{}
	ast.Inspect(f, func(n ast.Node) bool {
		// field: regexp.MustCompile(`...`) inside the navigationPatterns literal
		if kv, ok := n.(*ast.KeyValueExpr); ok {
			if id, ok := kv.Key.(*ast.Ident); ok {
				if call, ok := kv.Value.(*ast.CallExpr); ok && len(call.Args) == 1 {
					if pat, ok := constString(call.Args[0]); ok {
						if alts, ok := alternatives(pat); ok {
							found[id.Name] = alts
						}
					}
				}
			}
		}
		// navigationPatterns.excluded = regexp.MustCompile(...) in init()
		if as, ok := n.(*ast.AssignStmt); ok && len(as.Lhs) == 1 && len(as.Rhs) == 1 {
			if se, ok := as.Lhs[0].(*ast.SelectorExpr); ok {
				if call, ok := as.Rhs[0].(*ast.CallExpr); ok && len(call.Args) == 1 {
					if pat, ok := constString(call.Args[0]); ok {
						if alts, ok := alternatives(pat); ok {
							found[se.Sel.Name] = alts
						}
					}
				}
			}
		}
		return true
	})
	// The compiled patterns as the built package reports them (harness htmlvocab, given
	// with -htmlvocab) take precedence: they do not depend on how the source spells them.
	if vocabFile != "" {
		raw, err := os.ReadFile(vocabFile)
		if err != nil {
			fatal("htmlvocab: %v", err)
		}
		var pats map[string]string
		if err := json.Unmarshal(raw, &pats); err != nil {
			fatal("htmlvocab: %v", err)
		}
		for k, pat := range pats {
			alts, ok := alternatives(pat)
			if !ok {
				fatal("htmldoc pattern %s = %q is not of the shape (?i)(^|[^a-z])(A|B|...)([^a-z]|$)", k, pat)
			}
			found[k] = alts
		}
	}
	var b strings.Builder
	b.WriteString(header + "namespace Tabula.Gen.HtmlVocab\n\n")
	for _, k := range []string{"nav", "header", "footer", "sidebar", "excluded"} {
		if found[k] == nil {
			fatal("htmldoc/navigation.go: pattern %s not found in the expected shape", k)
		}
		b.WriteString(leanStrBytesList("vocab_"+k, found[k]))
		b.WriteString("\n")
	}
	b.WriteString("end Tabula.Gen.HtmlVocab\n")
	write("HtmlVocab.lean", b.String())
}

// switchWithCase finds, in the library files of one package directory, the first string
// switch (file name order, then position) one of whose cases is the literal lit. The
// tables are located by what they dispatch on, not by the name of the function they
// are in, so renaming or splitting that function does not lose them.
func switchWithCase(dir, lit string) []swCase {
	files := parseDir(dir)
	names := make([]string, 0, len(files))
	for n := range files {
		names = append(names, n)
	}
	sort.Strings(names)
	for _, n := range names {
		var hit *ast.SwitchStmt
		ast.Inspect(files[n], func(x ast.Node) bool {
			sw, ok := x.(*ast.SwitchStmt)
			if !ok || hit != nil {
				return hit == nil
			}
			for _, c := range casesOf(sw) {
				for _, l := range c.Lits {
					if l == lit {
						hit = sw
						return false
					}
				}
			}
			return true
		})
		if hit != nil {
			return casesOf(hit)
		}
	}
	return nil
}

// genDetectTable: the extension switch of package format.
func genDetectTable() {
	cs := switchWithCase("format", ".pdf")
	if cs == nil {
		fatal("format: no switch with a case \".pdf\"")
	}
	var b strings.Builder
	b.WriteString(header + "namespace Tabula.Gen.Tables\n\n")
	b.WriteString(leanSwitch("detectExtCases", cs))
	b.WriteString("\n")
	b.WriteString(leanSwitchBytes("detectExtCasesB", cs))
	b.WriteString("\nend Tabula.Gen.Tables\n")
	write("DetectTable.lean", b.String())
}

// genFilterTable: the filter-name switch of package core.
func genFilterTable() {
	cs := switchWithCase("core", "FlateDecode")
	if cs == nil {
		if filtersFile != "" {
			if raw, err := os.ReadFile(filtersFile); err == nil {
				var fb struct {
					Rows []struct {
						Names []string `json:"names"`
						Class string   `json:"class"`
					} `json:"rows"`
				}
				if json.Unmarshal(raw, &fb) == nil && len(fb.Rows) > 0 {
					// the name dispatch is not a switch: take what the built package does
					// with each candidate name (`harness filters`)
					var cs2 []swCase
					for _, r := range fb.Rows {
						body := "return " + r.Class
						if strings.HasPrefix(r.Class, "filters.") {
							body = "return " + r.Class + "(data)"
						}
						cs2 = append(cs2, swCase{Lits: r.Names, Body: body})
					}
					var b strings.Builder
					b.WriteString(header + "-- (from the behaviour of the built package: no switch with a case \"FlateDecode\" in package core)\nnamespace Tabula.Gen.Tables\n\n")
					b.WriteString(leanSwitch("filterNameCases", cs2))
					b.WriteString("\n")
					b.WriteString(leanSwitchBytes("filterNameCasesB", cs2))
					b.WriteString("\nend Tabula.Gen.Tables\n")
					write("FilterTable.lean", b.String())
					return
				}
			}
		}
		fatal("core: no switch with a case \"FlateDecode\"")
	}
	var b strings.Builder
	b.WriteString(header + "namespace Tabula.Gen.Tables\n\n")
	b.WriteString(leanSwitch("filterNameCases", cs))
	b.WriteString("\n")
	b.WriteString(leanSwitchBytes("filterNameCasesB", cs))
	b.WriteString("\nend Tabula.Gen.Tables\n")
	write("FilterTable.lean", b.String())
}

// libraryPackages are the directories of tabula's non-test library code.
var libraryPackages = []string{".", "contentstream", "core", "docx", "epubdoc", "font", "format", "graphicsstate",
	"htmldoc", "internal/filters", "layout", "model", "odt", "pages", "pptx", "rag", "reader", "resolver", "tables", "text", "xlsx"}

func parseDir(rel string) map[string]*ast.File {
	out := map[string]*ast.File{}
	dir := filepath.Join(repo, rel)
	ents, err := os.ReadDir(dir)
	if err != nil {
		fatal("read %s: %v", rel, err)
	}
	for _, e := range ents {
		n := e.Name()
		if e.IsDir() || !strings.HasSuffix(n, ".go") || strings.HasSuffix(n, "_test.go") {
			continue
		}
		f, err := parser.ParseFile(fset, filepath.Join(dir, n), nil, parser.ParseComments)
		if err != nil {
			fatal("parse %s/%s: %v", rel, n, err)
		}
		// hook files (build tag verif) are not part of the library proper
		skip := false
		for _, cg := range f.Comments {
			if cg.Pos() < f.Package && strings.Contains(cg.Text(), "go:build verif") {
				skip = true
			}
		}
		if !skip {
			out[n] = f
		}
	}
	return out
}

// rootIdent returns the identifier at the root of x, x.f, x[i], *x, x.f[i].g ...
func rootIdent(e ast.Expr) *ast.Ident {
	for {
		switch v := e.(type) {
		case *ast.Ident:
			return v
		case *ast.SelectorExpr:
			e = v.X
		case *ast.IndexExpr:
			e = v.X
		case *ast.StarExpr:
			e = v.X
		case *ast.ParenExpr:
			e = v.X
		default:
			return nil
		}
	}
}

// factPackageState: in the library packages no package-level variable is written
// outside init (assignment, ++/--, element/field assignment, delete, or taking its
// address), and there is no `go` statement: the result of an extraction cannot depend
// on earlier calls or on other goroutines through package state.
func factPackageState() {
	var writes, gos, aliases []string
	for _, pkg := range libraryPackages {
		files := parseDir(pkg)
		pkgVars := map[string]bool{}
		refVars := map[string]bool{}     // package-level maps and slices
		refElemVars := map[string]bool{} // ... whose elements are themselves maps, slices or pointers
		for _, f := range files {
			for _, d := range f.Decls {
				if gd, ok := d.(*ast.GenDecl); ok && gd.Tok == token.VAR {
					for _, s := range gd.Specs {
						vs := s.(*ast.ValueSpec)
						for i, n := range vs.Names {
							if n.Name != "_" {
								pkgVars[n.Name] = true
								var t ast.Expr = vs.Type
								if t == nil && i < len(vs.Values) {
									switch v := vs.Values[i].(type) {
									case *ast.CompositeLit:
										t = v.Type
									case *ast.CallExpr:
										if fn, ok := v.Fun.(*ast.Ident); ok && fn.Name == "make" && len(v.Args) > 0 {
											t = v.Args[0]
										}
									}
								}
								isRef := func(e ast.Expr) bool {
									switch x := e.(type) {
									case *ast.MapType, *ast.StarExpr:
										return true
									case *ast.ArrayType:
										return x.Len == nil
									}
									return false
								}
								switch tt := t.(type) {
								case *ast.MapType:
									refVars[n.Name] = true
									if isRef(tt.Value) {
										refElemVars[n.Name] = true
									}
								case *ast.ArrayType:
									if tt.Len == nil {
										refVars[n.Name] = true
									}
									if isRef(tt.Elt) {
										refElemVars[n.Name] = true
									}
								}
							}
						}
					}
				}
			}
		}
		isPkgVar := func(id *ast.Ident) bool {
			if id == nil || !pkgVars[id.Name] {
				return false
			}
			if id.Obj == nil {
				return true // unresolved within the file: a package-level name from another file
			}
			if vs, ok := id.Obj.Decl.(*ast.ValueSpec); ok {
				// resolved to a declaration: package level iff it is not inside a function
				return declIsTopLevel(files, vs)
			}
			return false
		}
		names := make([]string, 0, len(files))
		for n := range files {
			names = append(names, n)
		}
		sort.Strings(names)
		for _, fname := range names {
			f := files[fname]
			for _, d := range f.Decls {
				fd, ok := d.(*ast.FuncDecl)
				if !ok || fd.Body == nil || (fd.Name.Name == "init" && fd.Recv == nil) {
					continue
				}
				where := func(p token.Pos) string {
					return fmt.Sprintf("%s/%s:%d %s", pkg, fname, fset.Position(p).Line, fd.Name.Name)
				}
				// locals that hold an element of a package-level container of references
				// (x := pkgMap[k]; for _, x := range pkgMap): writing through them, or storing
				// them in a field, aliases package state
				tainted := map[*ast.Object]string{}
				fromPkgElem := func(e ast.Expr) string {
					if ix, ok := e.(*ast.IndexExpr); ok {
						if id, ok := ix.X.(*ast.Ident); ok && refElemVars[id.Name] && isPkgVar(id) {
							return id.Name
						}
					}
					return ""
				}
				ast.Inspect(fd.Body, func(n ast.Node) bool {
					switch v := n.(type) {
					case *ast.AssignStmt:
						if v.Tok == token.DEFINE && len(v.Rhs) == 1 {
							if src := fromPkgElem(v.Rhs[0]); src != "" {
								if id, ok := v.Lhs[0].(*ast.Ident); ok && id.Obj != nil {
									tainted[id.Obj] = src
								}
							}
						}
					case *ast.RangeStmt:
						if id, ok := v.X.(*ast.Ident); ok && refElemVars[id.Name] && isPkgVar(id) {
							if val, ok := v.Value.(*ast.Ident); ok && val.Obj != nil {
								tainted[val.Obj] = id.Name
							}
						}
					}
					return true
				})
				ast.Inspect(fd.Body, func(n ast.Node) bool {
					switch v := n.(type) {
					case *ast.AssignStmt:
						for i, rhs := range v.Rhs {
							if id, ok := rhs.(*ast.Ident); ok && id.Obj != nil && tainted[id.Obj] != "" && i < len(v.Lhs) {
								if l, ok := v.Lhs[i].(*ast.Ident); !ok || l.Name != "_" {
									if _, isIdent := v.Lhs[i].(*ast.Ident); !isIdent || v.Tok != token.DEFINE {
										aliases = append(aliases, where(rhs.Pos())+" stores an element of "+tainted[id.Obj]+" ("+id.Name+")")
									}
								}
							}
						}
						if v.Tok != token.DEFINE {
							for _, lhs := range v.Lhs {
								if _, plain := lhs.(*ast.Ident); !plain {
									if id := rootIdent(lhs); id != nil && id.Obj != nil && tainted[id.Obj] != "" {
										writes = append(writes, where(lhs.Pos())+" writes through an element of "+tainted[id.Obj]+" ("+id.Name+")")
									}
								}
							}
						}
					case *ast.ReturnStmt:
						for _, e := range v.Results {
							if id, ok := e.(*ast.Ident); ok && id.Obj != nil && tainted[id.Obj] != "" {
								aliases = append(aliases, where(e.Pos())+" returns an element of "+tainted[id.Obj]+" ("+id.Name+")")
							}
						}
					}
					return true
				})
				ast.Inspect(fd.Body, func(n ast.Node) bool {
					switch v := n.(type) {
					case *ast.GoStmt:
						gos = append(gos, where(v.Pos()))
					case *ast.ReturnStmt:
						for _, e := range v.Results {
							if id, ok := e.(*ast.Ident); ok && refVars[id.Name] && isPkgVar(id) {
								aliases = append(aliases, where(e.Pos())+" returns "+id.Name)
							}
						}
					case *ast.KeyValueExpr:
						if id, ok := v.Value.(*ast.Ident); ok && refVars[id.Name] && isPkgVar(id) {
							aliases = append(aliases, where(v.Pos())+" stores "+id.Name+" in a composite literal")
						}
					case *ast.AssignStmt:
						for _, rhs := range v.Rhs {
							if id, ok := rhs.(*ast.Ident); ok && refVars[id.Name] && isPkgVar(id) {
								aliases = append(aliases, where(rhs.Pos())+" aliases "+id.Name)
							}
						}
						if v.Tok == token.DEFINE {
							return true
						}
						for _, lhs := range v.Lhs {
							if id := rootIdent(lhs); isPkgVar(id) {
								writes = append(writes, where(lhs.Pos())+" writes "+id.Name)
							}
						}
					case *ast.IncDecStmt:
						if id := rootIdent(v.X); isPkgVar(id) {
							writes = append(writes, where(v.Pos())+" writes "+id.Name)
						}
					case *ast.UnaryExpr:
						if v.Op == token.AND {
							if id := rootIdent(v.X); isPkgVar(id) {
								writes = append(writes, where(v.Pos())+" takes the address of "+id.Name)
							}
						}
					case *ast.CallExpr:
						if fn, ok := v.Fun.(*ast.Ident); ok && (fn.Name == "delete" || fn.Name == "clear") && len(v.Args) > 0 {
							if id := rootIdent(v.Args[0]); isPkgVar(id) {
								writes = append(writes, where(v.Pos())+" "+fn.Name+"s from "+id.Name)
							}
						}
					}
					return true
				})
			}
		}
	}
	facts["no-package-state-aliases"] = Fact{OK: len(aliases) == 0, Detail: detail(aliases, "no package-level map or slice is assigned to another variable or field, returned, or stored in a composite literal (it is only indexed, ranged over or measured)")}
	facts["no-package-state-writes"] = Fact{OK: len(writes) == 0, Detail: detail(writes, "no package-level variable is written outside init in "+fmt.Sprint(len(libraryPackages))+" library packages")}
	facts["no-go-statements"] = Fact{OK: len(gos) == 0, Detail: detail(gos, "no go statement in library code")}
}

func detail(bad []string, good string) string {
	if len(bad) == 0 {
		return good
	}
	if len(bad) > 6 {
		bad = append(bad[:6], fmt.Sprintf("… and %d more", len(bad)-6))
	}
	return strings.Join(bad, "; ")
}

func declIsTopLevel(files map[string]*ast.File, vs *ast.ValueSpec) bool {
	for _, f := range files {
		for _, d := range f.Decls {
			if gd, ok := d.(*ast.GenDecl); ok {
				for _, s := range gd.Specs {
					if s == ast.Spec(vs) {
						return true
					}
				}
			}
		}
	}
	return false
}

// factTerminalOpsClose: every method of tabula.Extractor that opens the reader
// (ensureReader / ensurePDFReader) and is documented as a terminal operation releases it
// with `defer e.Close()` right after; the non-terminal ones are exactly PageCount,
// IsCharacterLevel and IsMultiColumn.
func factTerminalOpsClose() {
	f := parseFile("extractor.go")
	nonTerminal := map[string]bool{"PageCount": true, "IsCharacterLevel": true, "IsMultiColumn": true, "ensurePDFReader": true}
	var bad, terminal []string
	for _, d := range f.Decls {
		fd, ok := d.(*ast.FuncDecl)
		if !ok || fd.Recv == nil || fd.Body == nil {
			continue
		}
		opens, closes := false, false
		ast.Inspect(fd.Body, func(n ast.Node) bool {
			switch v := n.(type) {
			case *ast.CallExpr:
				if se, ok := v.Fun.(*ast.SelectorExpr); ok && (se.Sel.Name == "ensureReader" || se.Sel.Name == "ensurePDFReader") {
					opens = true
				}
			case *ast.DeferStmt:
				if se, ok := v.Call.Fun.(*ast.SelectorExpr); ok && se.Sel.Name == "Close" {
					if id, ok := se.X.(*ast.Ident); ok && id.Name == "e" {
						closes = true
					}
				}
			}
			return true
		})
		if !opens || nonTerminal[fd.Name.Name] {
			continue
		}
		terminal = append(terminal, fd.Name.Name)
		if !closes {
			bad = append(bad, fd.Name.Name+" opens the reader without `defer e.Close()`")
		}
	}
	sort.Strings(terminal)
	facts["terminal-ops-close"] = Fact{OK: len(bad) == 0 && len(terminal) >= 10, Detail: detail(bad, fmt.Sprintf("%d terminal operations defer e.Close(): %s", len(terminal), strings.Join(terminal, ",")))}
}

// leanSwitchBytes renders the cases as (literals as byte lists, first word after `return`).
func leanSwitchBytes(name string, cs []swCase) string {
	var b strings.Builder
	fmt.Fprintf(&b, "def %s : List (List (List Nat) × String) := [", name)
	first := true
	for _, c := range cs {
		if len(c.Lits) == 1 && c.Lits[0] == "<default>" {
			continue
		}
		var lits []string
		for _, l := range c.Lits {
			lits = append(lits, leanStrBytes(l))
		}
		target := strings.TrimPrefix(c.Body, "return ")
		if i := strings.IndexAny(target, "(, "); i >= 0 {
			target = target[:i]
		}
		if !first {
			b.WriteString(",")
		}
		first = false
		fmt.Fprintf(&b, "\n  ([%s], %s)", strings.Join(lits, ", "), leanStr(target))
	}
	b.WriteString("]\n")
	return b.String()
}

// genGlyphNames writes the glyph-name table of package font (the map /Differences names are
// looked up in) as Gen/GlyphNames.lean. The map is located by content - the map[string]rune
// literal of package font that has the keys "quotedblleft" and "Euro" - not by its identifier.
func genGlyphNames() {
	dir := filepath.Join(repo, "font")
	ents, err := os.ReadDir(dir)
	if err != nil {
		fatal("font package: %v", err)
	}
	type entry struct {
		name string
		r    int64
	}
	var found [][]entry
	for _, e := range ents {
		n := e.Name()
		if !strings.HasSuffix(n, ".go") || strings.HasSuffix(n, "_test.go") || strings.HasPrefix(n, "verif_export") {
			continue
		}
		f := parseFile(filepath.Join("font", n))
		ast.Inspect(f, func(nd ast.Node) bool {
			cl, ok := nd.(*ast.CompositeLit)
			if !ok {
				return true
			}
			mt, ok := cl.Type.(*ast.MapType)
			if !ok || src(mt.Key) != "string" {
				return true
			}
			var es []entry
			keys := map[string]bool{}
			for _, el := range cl.Elts {
				kv, ok := el.(*ast.KeyValueExpr)
				if !ok {
					return true
				}
				k, ok := constString(kv.Key)
				if !ok {
					return true
				}
				v, ok := evalInt(kv.Value)
				if !ok {
					bl, isLit := kv.Value.(*ast.BasicLit)
					if !isLit || bl.Kind != token.CHAR {
						return true
					}
					c, _, _, err := strconv.UnquoteChar(bl.Value[1:len(bl.Value)-1], '\'')
					if err != nil {
						return true
					}
					v = int64(c)
				}
				keys[k] = true
				es = append(es, entry{k, v})
			}
			if keys["quotedblleft"] && keys["Euro"] {
				found = append(found, es)
			}
			return true
		})
	}
	if len(found) != 1 {
		fatal("glyph-name map: %d candidate literals in package font", len(found))
	}
	var b strings.Builder
	b.WriteString(header + "namespace Tabula.Gen.GlyphNames\n\n")
	b.WriteString("/-- the entries of the glyph-name map literal of package font: name (bytes) and rune, in source order -/\n")
	b.WriteString("def table : List (List Nat × Nat) := [")
	for i, e := range found[0] {
		if i > 0 {
			b.WriteString(",")
		}
		fmt.Fprintf(&b, "\n  (%s, %d) /- %s -/", leanStrBytes(e.name), e.r, strings.ReplaceAll(e.name, "-/", "- /"))
	}
	b.WriteString("]\n\nend Tabula.Gen.GlyphNames\n")
	write("GlyphNames.lean", b.String())
}
