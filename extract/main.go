// Command extract is the (deliberately small and dumb) translator of DESIGN.md
// section 3.2: it re-reads tabula's Go sources with go/ast and emits literal
// tables, constants and switch tables as Lean definitions (Gen/*.lean) plus
// structural facts (facts.json).  Everything algorithmic is tied by the
// correspondence harness instead.
package main

import (
	"bytes"
	"encoding/json"
	"flag"
	"fmt"
	"go/ast"
	"go/constant"
	"go/parser"
	"go/printer"
	"go/token"
	"os"
	"path/filepath"
	"sort"
	"strconv"
	"strings"
)

var fset = token.NewFileSet()
var repo string

type Fact struct {
	OK     bool   `json:"ok"`
	Detail string `json:"detail"`
}

var facts = map[string]Fact{}

func parseFile(rel string) *ast.File {
	f, err := parser.ParseFile(fset, filepath.Join(repo, rel), nil, parser.ParseComments)
	if err != nil {
		fatal("parse %s: %v", rel, err)
	}
	return f
}

// genFail aborts the extraction unit that is running; the other units still run.
type genFail string

// unit is the extraction running now ("" outside one); genErrors maps a unit to why it
// could not be extracted. A unit is a Gen file name or "facts:<group>".
var unit string
var genErrors = map[string]string{}

func fatal(format string, a ...interface{}) {
	if unit != "" {
		panic(genFail(fmt.Sprintf(format, a...)))
	}
	fmt.Fprintf(os.Stderr, "extract: "+format+"\n", a...)
	os.Exit(1)
}

// guarded runs one extraction unit: what it cannot find in the source no longer stops
// the others (check reports the failure for the properties that depend on the unit).
func guarded(name string, f func()) {
	unit = name
	defer func() {
		unit = ""
		if r := recover(); r != nil {
			if g, ok := r.(genFail); ok {
				genErrors[name] = string(g)
				return
			}
			genErrors[name] = fmt.Sprintf("extractor panic: %v", r)
		}
	}()
	f()
}

func src(n ast.Node) string {
	var b bytes.Buffer
	printer.Fprint(&b, fset, n)
	return b.String()
}

// evalInt evaluates an integer/char constant expression made of literals.
func evalInt(e ast.Expr) (int64, bool) {
	switch x := e.(type) {
	case *ast.BasicLit:
		v := constant.MakeFromLiteral(x.Value, x.Kind, 0)
		if v.Kind() == constant.Int {
			i, ok := constant.Int64Val(v)
			return i, ok
		}
	case *ast.ParenExpr:
		return evalInt(x.X)
	case *ast.UnaryExpr:
		if v, ok := evalInt(x.X); ok {
			switch x.Op {
			case token.SUB:
				return -v, true
			case token.ADD:
				return v, true
			}
		}
	case *ast.BinaryExpr:
		a, ok1 := evalInt(x.X)
		b, ok2 := evalInt(x.Y)
		if ok1 && ok2 {
			switch x.Op {
			case token.ADD:
				return a + b, true
			case token.SUB:
				return a - b, true
			case token.MUL:
				return a * b, true
			case token.SHL:
				return a << uint(b), true
			}
		}
	case *ast.CallExpr: // rune(0x41), byte('a')
		if len(x.Args) == 1 {
			return evalInt(x.Args[0])
		}
	}
	return 0, false
}

func findVar(f *ast.File, name string) *ast.ValueSpec {
	for _, d := range f.Decls {
		gd, ok := d.(*ast.GenDecl)
		if !ok {
			continue
		}
		for _, s := range gd.Specs {
			vs, ok := s.(*ast.ValueSpec)
			if !ok {
				continue
			}
			for _, n := range vs.Names {
				if n.Name == name {
					return vs
				}
			}
		}
	}
	return nil
}

func findFunc(f *ast.File, recv, name string) *ast.FuncDecl {
	for _, d := range f.Decls {
		fd, ok := d.(*ast.FuncDecl)
		if !ok || fd.Name.Name != name {
			continue
		}
		r := ""
		if fd.Recv != nil && len(fd.Recv.List) == 1 {
			t := fd.Recv.List[0].Type
			if st, ok := t.(*ast.StarExpr); ok {
				t = st.X
			}
			if id, ok := t.(*ast.Ident); ok {
				r = id.Name
			}
		}
		if r == recv {
			return fd
		}
	}
	return nil
}

// intArray reads `var name = [N]T{...}` (positional or keyed integer literals).
func intArray(f *ast.File, name string) []int64 {
	vs := findVar(f, name)
	if vs == nil || len(vs.Values) != 1 {
		fatal("table %s not found", name)
	}
	cl, ok := vs.Values[0].(*ast.CompositeLit)
	if !ok {
		fatal("table %s is not a composite literal", name)
	}
	n := int64(-1)
	if at, ok := cl.Type.(*ast.ArrayType); ok && at.Len != nil {
		if v, ok := evalInt(at.Len); ok {
			n = v
		}
	}
	var out []int64
	idx := int64(0)
	set := func(i, v int64) {
		for int64(len(out)) <= i {
			out = append(out, 0)
		}
		out[i] = v
	}
	for _, el := range cl.Elts {
		if kv, ok := el.(*ast.KeyValueExpr); ok {
			k, ok1 := evalInt(kv.Key)
			v, ok2 := evalInt(kv.Value)
			if !ok1 || !ok2 {
				fatal("table %s: non-literal element %s", name, src(el))
			}
			set(k, v)
			idx = k + 1
			continue
		}
		v, ok := evalInt(el)
		if !ok {
			fatal("table %s: non-literal element %s", name, src(el))
		}
		set(idx, v)
		idx++
	}
	for n >= 0 && int64(len(out)) < n {
		out = append(out, 0)
	}
	return out
}

func leanNatArray(name string, xs []int64) string {
	var b strings.Builder
	fmt.Fprintf(&b, "def %s : Array Nat := #[", name)
	for i, x := range xs {
		if i > 0 {
			b.WriteString(", ")
		}
		if i%16 == 0 {
			b.WriteString("\n  ")
		}
		if x < 0 {
			fatal("negative entry in %s", name)
		}
		b.WriteString(strconv.FormatInt(x, 10))
	}
	b.WriteString("]\n")
	return b.String()
}

func leanStr(s string) string {
	var b strings.Builder
	b.WriteByte('"')
	for _, r := range s {
		switch {
		case r == '"':
			b.WriteString("\\\"")
		case r == '\\':
			b.WriteString("\\\\")
		case r == '\n':
			b.WriteString("\\n")
		case r == '\t':
			b.WriteString("\\t")
		case r == '\r':
			b.WriteString("\\r")
		case r < 0x20 || r == 0x7f:
			fmt.Fprintf(&b, "\\x%02x", r)
		default:
			b.WriteRune(r)
		}
	}
	b.WriteByte('"')
	return b.String()
}

func leanStrList(xs []string) string {
	ys := make([]string, len(xs))
	for i, x := range xs {
		ys[i] = leanStr(x)
	}
	return "[" + strings.Join(ys, ", ") + "]"
}

// switchCases reads the (first) switch statement over `tag` in a function and
// returns, per case, the string/char literals and the printed body.
type swCase struct {
	Lits []string
	Body string
}

func switchCases(fd *ast.FuncDecl, nth int) []swCase {
	var out []swCase
	count := 0
	ast.Inspect(fd.Body, func(n ast.Node) bool {
		sw, ok := n.(*ast.SwitchStmt)
		if !ok {
			return true
		}
		if count != nth {
			count++
			return true
		}
		count++
		out = casesOf(sw)
		return false
	})
	return out
}

// casesOf lists the case clauses of one switch statement.
func casesOf(sw *ast.SwitchStmt) []swCase {
	var out []swCase
	{
		for _, st := range sw.Body.List {
			cc := st.(*ast.CaseClause)
			var c swCase
			for _, e := range cc.List {
				if bl, ok := e.(*ast.BasicLit); ok && bl.Kind == token.STRING {
					s, _ := strconv.Unquote(bl.Value)
					c.Lits = append(c.Lits, s)
				} else if bl, ok := e.(*ast.BasicLit); ok && bl.Kind == token.CHAR {
					s, _ := strconv.Unquote(bl.Value)
					c.Lits = append(c.Lits, s)
				} else {
					c.Lits = append(c.Lits, "expr:"+src(e))
				}
			}
			if cc.List == nil {
				c.Lits = []string{"<default>"}
			}
			var bs []string
			for _, s := range cc.Body {
				bs = append(bs, strings.Join(strings.Fields(src(s)), " "))
			}
			c.Body = strings.Join(bs, "; ")
			out = append(out, c)
		}
	}
	return out
}

func leanSwitch(name string, cs []swCase) string {
	var b strings.Builder
	fmt.Fprintf(&b, "def %s : List (List String × String) := [", name)
	for i, c := range cs {
		if i > 0 {
			b.WriteString(",")
		}
		fmt.Fprintf(&b, "\n  (%s, %s)", leanStrList(c.Lits), leanStr(c.Body))
	}
	b.WriteString("]\n")
	return b.String()
}

// stringSlice reads `name := []string{...}` / `var name = []string{...}` or a map
// literal's keys inside a function or at package level.
func stringLits(n ast.Node) []string {
	var out []string
	ast.Inspect(n, func(n ast.Node) bool {
		if bl, ok := n.(*ast.BasicLit); ok && bl.Kind == token.STRING {
			s, _ := strconv.Unquote(bl.Value)
			out = append(out, s)
		}
		return true
	})
	return out
}

var outDir string
var vocabFile string
var filtersFile string

func write(name, content string) {
	if err := os.WriteFile(filepath.Join(outDir, name), []byte(content), 0o644); err != nil {
		fatal("%v", err)
	}
}

const header = "-- GENERATED by /verif/extract from /repo on every check run. Do not edit.\n"

// encFile is the JSON written by `harness encodings`: the six exported encodings as the
// built package behaves (Decode of every byte, Name, GetEncoding of each name).
var encFile string

type runtimeEncodings struct {
	Vars     []string           `json:"vars"`
	Names    map[string]string  `json:"names"`
	Tables   map[string][]int64 `json:"tables"`
	Dispatch [][2]string        `json:"dispatch"` // encoding name -> variable GetEncoding returns
	Default  string             `json:"default"`
}

// genEncodings reads the tables from the source text; when the source no longer has the
// shape this reader knows (fields or types renamed, switch replaced by a map) it falls back
// on what the built package reports through its public API, written in the same form.
func genEncodings() {
	defer func() {
		r := recover()
		if r == nil {
			return
		}
		if encFile == "" {
			panic(r)
		}
		raw, err := os.ReadFile(encFile)
		if err != nil {
			panic(r)
		}
		var re runtimeEncodings
		if err := json.Unmarshal(raw, &re); err != nil {
			panic(r)
		}
		genEncodingsRuntime(re)
	}()
	genEncodingsSource()
}

var encCanon = map[string]string{"WinAnsiEncoding": "winAnsiTable", "MacRomanEncoding": "macRomanTable", "PDFDocEncoding": "pdfDocTable",
	"StandardEncodingTable": "standardEncodingTableData", "SymbolEncoding": "symbolEncodingTable", "ZapfDingbatsEncoding": "zapfDingbatsEncodingTable"}

func genEncodingsRuntime(re runtimeEncodings) {
	var b, vars strings.Builder
	b.WriteString(header + "namespace Tabula.Gen.Encodings\n\n")
	vars.WriteString("def encodingVars : List (String × String × String) := [")
	for i, v := range re.Vars {
		if len(re.Tables[v]) != 256 || encCanon[v] == "" {
			fatal("runtime encodings: bad table for %s", v)
		}
		b.WriteString(leanNatArray(encCanon[v], re.Tables[v]))
		b.WriteString("\n")
		if i > 0 {
			vars.WriteString(",")
		}
		fmt.Fprintf(&vars, "\n  (%s, %s, %s)", leanStr(v), leanStr(re.Names[v]), leanStr(encCanon[v]))
	}
	b.WriteString(vars.String())
	b.WriteString("]\n\n")
	var cs []swCase
	for _, d := range re.Dispatch {
		cs = append(cs, swCase{Lits: []string{d[0]}, Body: "return " + d[1]})
	}
	cs = append(cs, swCase{Lits: []string{"<default>"}, Body: "return " + re.Default})
	b.WriteString(leanSwitch("getEncodingCases", cs))
	b.WriteString("\nend Tabula.Gen.Encodings\n")
	write("Encodings.lean", b.String())
}

func genEncodingsSource() {
	f := parseFile("font/encoding.go")
	var b strings.Builder
	b.WriteString(header + "namespace Tabula.Gen.Encodings\n\n")
	// The tables are located through the exported encoding variables (`table: X`), and
	// written under fixed Lean names: the unexported identifier X may change freely.
	canon := encCanon
	// named encoding variable -> (name, table identifier)
	var vars strings.Builder
	vars.WriteString("def encodingVars : List (String × String × String) := [")
	first := true
	for _, v := range []string{"WinAnsiEncoding", "MacRomanEncoding", "PDFDocEncoding", "StandardEncodingTable", "SymbolEncoding", "ZapfDingbatsEncoding"} {
		vs := findVar(f, v)
		if vs == nil {
			fatal("encoding var %s not found", v)
		}
		name, table := "", ""
		ast.Inspect(vs.Values[0], func(n ast.Node) bool {
			if kv, ok := n.(*ast.KeyValueExpr); ok {
				if id, ok := kv.Key.(*ast.Ident); ok {
					switch id.Name {
					case "name":
						if bl, ok := kv.Value.(*ast.BasicLit); ok {
							name, _ = strconv.Unquote(bl.Value)
						}
					case "table":
						table = src(kv.Value)
					}
				}
			}
			return true
		})
		if !first {
			vars.WriteString(",")
		}
		first = false
		b.WriteString(leanNatArray(canon[v], intArray(f, table)))
		b.WriteString("\n")
		fmt.Fprintf(&vars, "\n  (%s, %s, %s)", leanStr(v), leanStr(name), leanStr(canon[v]))
	}
	b.WriteString(vars.String())
	b.WriteString("]\n\n")
	b.WriteString(leanSwitch("getEncodingCases", switchCases(findFunc(f, "", "GetEncoding"), 0)))
	b.WriteString("\nend Tabula.Gen.Encodings\n")
	write("Encodings.lean", b.String())
}

func main() {
	flag.StringVar(&repo, "repo", "/repo", "")
	flag.StringVar(&outDir, "out", "", "")
	flag.StringVar(&vocabFile, "htmlvocab", "", "JSON written by `harness htmlvocab`")
	flag.StringVar(&filtersFile, "filters", "", "JSON written by `harness filters`")
	flag.StringVar(&encFile, "encodings", "", "JSON written by `harness encodings`")
	flag.Parse()
	if outDir == "" {
		fatal("-out required")
	}
	guarded("Encodings.lean", genEncodings)
	genAll()
	keys := make([]string, 0, len(facts))
	for k := range facts {
		keys = append(keys, k)
	}
	sort.Strings(keys)
	fb, _ := json.MarshalIndent(facts, "", " ")
	write("facts.json", string(fb))
	eb, _ := json.MarshalIndent(genErrors, "", " ")
	write("gen_errors.json", string(eb))
}
